# C08 harness (tier S): compiled functions vs interpretation.  Template, input
# node list, output node list and argument values are boolean selectors.
from vlib.stubs import apply_common
apply_common()
from vlib.sel import sel, concrete
import numpy as np
import formulas
import models as M

T = __T__
P = M.P
INPUTS = [[P + 'A1'], [P + 'A2'], [P + 'A1', P + 'A2'], [M.NAME], [M.NAME, P + 'A2'], [P + 'A2', P + 'A1'], [P + 'B1'],
          [P + 'A1', P + 'B1'], [M.BLOCK], [M.BLOCK, P + 'A1'], ['RANGE'], [P + 'I1', P + 'H2'],
          [P + 'H6'], [P + 'H4', P + 'H1'], [M.NB]]       # 12-14: cells that are BLANK in the model (inside sparse ranges), a name over one
# outputs around the 2x2 block, the constant-valued name (K4), the sparse ranges (K5, K7), the name over a blank cell (K6)
OUTPUTS_BLOCK = [P + 'J1', P + 'J2', P + 'J3', P + 'K4', P + 'K5', P + 'K6', P + 'K7']
# K10 = K9 - K8 + A2 with K8 = RAND(), K9 = K8*1: volatile cells cancel, the value is A2 whatever is frozen or not
OUTPUTS = [[M.Q + 'A1'], [P + 'B2', P + 'C1', P + 'K10'], [P + 'E1:F1'], [P + 'D1', P + 'G1'], [P + 'B1', M.Q + 'A1', P + 'B2']]
KNOWN_ABSENT = __KNOWN_ABSENT__      # known finding C08-absent-cell-as-compile-input is excluded (True) or demanded (False)


def _compiled(i, o, a, b):
    pl = M.pool()
    inputs, outputs = list(INPUTS[i]), list(OUTPUTS[o])
    if inputs[0] == 'RANGE':
        inputs[0] = M.RANGE[T][0]
    if i >= 8:
        outputs = outputs + OUTPUTS_BLOCK
    vals = [pl[a], pl[b]][:len(inputs)]
    if inputs[0] == M.BLOCK:
        vals[0] = [[pl[a], pl[b]], [pl[b], 9]]
    elif i == 10:
        vals[0] = [[pl[a]], [pl[b]], [pl[a]]][:len(M.RANGE[T][1])]
    if set(inputs) & set(outputs):
        return True          # an input asked back as an output: not a case the statement speaks about
    try:
        func = M.build(T).compile(inputs, outputs)
        got = func(*vals)
    except Exception:
        return bool(KNOWN_ABSENT and i in (12, 14))
    got = [got] if len(outputs) == 1 else list(got)
    got = [M.norm_value(g.value if hasattr(g, 'value') else g) for g in got]
    sol = M.build(T).calculate(inputs=dict(zip(inputs, vals)), outputs=outputs)
    want = [M.norm_value(sol[k].value) for k in outputs]
    if got != want:
        return bool(KNOWN_ABSENT and i in (12, 14))
    # a second call with other arguments is not influenced by the first (nothing frozen)
    vals2 = [pl[b], pl[a]][:len(inputs)]
    if inputs[0] == M.BLOCK:
        vals2[0] = [[pl[b], 1], [pl[a], pl[a]]]
    elif i == 10:
        vals2[0] = [[pl[b]], [pl[b]], [pl[a]]][:len(M.RANGE[T][1])]
    got2 = func(*vals2)
    got2 = [got2] if len(outputs) == 1 else list(got2)
    got2 = [M.norm_value(g.value if hasattr(g, 'value') else g) for g in got2]
    sol2 = M.build(T).calculate(inputs=dict(zip(inputs, vals2)), outputs=outputs)
    return got2 == [M.norm_value(sol2[k].value) for k in outputs] or bool(KNOWN_ABSENT and i in (12, 14))


def compiled_ok(i0: bool, i1: bool, i2: bool, i3: bool, o0: bool, o1: bool, o2: bool, a0: bool, a1: bool, a2: bool,
                b0: bool, b1: bool, b2: bool) -> bool:
    """
    pre: sel(o0, o1, o2) < len(OUTPUTS)
    pre: sel(i0, i1, i2, i3) == __I__
    post: _
    """
    return concrete(_compiled, sel(i0, i1, i2, i3), sel(o0, o1, o2), sel(a0, a1, a2), sel(b0, b1, b2))


# --- a single formula compiled to a function ----------------------------------
FORMULAS = [
    '=A1+B1*2', '=IF(A1>3,B1,"no")', '=A1/B1', '=IFERROR(A1/B1,C1)', '=A1&B1&C1', '=IF(ISERROR(B1),A1,C1)',
    '=SUM(A1,B1)-C1', '=B1=A1', '=MAX(A1,B1,C1)', '=IF(A1,B1,C1)', '=-B1%+A1', '=C1^2+A1',
]


def literal(v):
    if isinstance(v, M.XlError):
        return str(v)
    if isinstance(v, bool):
        return 'TRUE' if v else 'FALSE'
    if isinstance(v, str):
        return '"%s"' % v
    return '(%r)' % v if v < 0 else repr(v)


def _formula(f, a, b, c):
    pl = M.pool()
    text = FORMULAS[f]
    func = formulas.Parser().ast(text)[1].compile()
    names = list(func.inputs)
    vals = dict(zip(['A1', 'B1', 'C1'], [pl[a], pl[b], pl[c]]))
    got = M.norm_value(func(*[vals[n] for n in names]))
    lit = text
    for n in ('A1', 'B1', 'C1'):
        lit = lit.replace(n, literal(vals[n]))
    want = M.norm_value(formulas.Parser().ast(lit)[1].compile()())
    return got == want


def formula_ok(f0: bool, f1: bool, f2: bool, f3: bool, a0: bool, a1: bool, a2: bool, b0: bool, b1: bool, b2: bool,
               c0: bool, c1: bool, c2: bool) -> bool:
    """
    pre: sel(f0, f1, f2, f3) == __F__
    post: _
    """
    # arguments in the order the inputs mapping reports == the same formula with literals
    return concrete(_formula, sel(f0, f1, f2, f3), sel(a0, a1, a2), sel(b0, b1, b2), sel(c0, c1, c2))

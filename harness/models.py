"""Shared workbook harness for the tier-S checks (C07, C08, C14 and the workbook
parts of C03, C09, C13).  Everything here runs on concrete values: the callers
choose template, values, operations and faults with boolean selectors and call
these functions through vlib.sel.concrete()."""
import copy
import numpy as np
import schedula as sh
import formulas
from formulas.tokens.operand import XlError

P, Q, R = "'[b]S'!", "'[b]T'!", "'[c.xlsx]U'!"
S2 = "'[c.xlsx]S'!"
NAME = "'[b]'!NM"
KC, NB = "'[b]'!KC", "'[b]'!NB"      # a constant-valued name; a name pointing at a cell that is not in the model
ERR = formulas.functions.Error.errors if hasattr(formulas, 'functions') else None


def errors():
    from formulas.functions import Error
    return Error.errors


# value pool for constants / overrides: number, fraction, logical, numeric text, text, blank, error
def pool():
    E = errors()
    return [5, -1.5, True, '7', 'x', 0, E['#DIV/0!'], 12]


def as_cell(v):
    """spelling of a pool value as a dictionary constant"""
    if isinstance(v, XlError):
        return '=%s' % v
    return v


BLOCK = P + 'H1:I2'


def template(t, a1=5, a2=3):
    """three model families; every referenced cell is present (no completion needed)"""
    d = _template(t, a1, a2)
    # a genuinely two-dimensional block, read as a whole and cell by cell
    d.update({P + 'H1': 1.5, P + 'I1': 2, P + 'H2': 30, P + 'I2': 'w',
              P + 'J1': '=SUM(%sH1:I2)' % P, P + 'J2': '=%sI1*10+%sH2' % (P, P), P + 'J3': '=%sI2&"!"' % P,
              # one range used alone and inside a multi-area reference of the same formula
              P + 'K1': '=SUM(%sH1:I1)/SUM((%sH1:I1,%sH2:H2))' % (P, P, P),
              # a second workbook with a sheet of the SAME name, read through ranges
              S2 + 'H1': 100, S2 + 'I1': 200, S2 + 'H2': 300,
              P + 'K2': '=SUM(%sH1:I1)-SUM(%sH1:I1)' % (S2, P), P + 'K3': '=IF(%sH1>=3,"big",)' % P,
              # a defined name that holds a constant
              KC: '=0.5', P + 'K4': '=%sH1*%s' % (P, KC),
              # sparse ranges: H3 ... H7 are NOT cells of the model (blank); two overlapping ranges read them,
              # a name points at H3, H4 is also read alone, H5 is referred to by the ranges only, H6 and H7 by ONE range only (two or more such cells are read through the solution, not through nodes)
              P + 'K5': '=SUM(%sH1:H7)' % P, NB: '=%sH3' % P, P + 'K6': '=%s+1' % NB,
              P + 'K7': '=SUM(%sH2:H5)*2+%sH4' % (P, P),
              P + 'K11': '=SUM(%sG6:H7)' % P,        # a second sparse range over the cells only ranges know
              # column I: I3, I4, I5 are blank and known to these two ranges only; both ranges hold stored cells
              P + 'K12': '=SUM(%sI1:I5)' % P, P + 'K13': '=COUNT(%sI2:I4)*100+SUM(%sI2:I4)' % (P, P),
              # a volatile cell, a dependent of it, and a cell in which the two cancel (K8, K9 are left out of comparisons)
              P + 'K8': '=RAND()', P + 'K9': '=%sK8*1' % P, P + 'K10': '=%sK9-%sK8+%sA2' % (P, P, P)})
    return d


VOLATILE = {P + 'K8', P + 'K9'}


def _template(t, a1=5, a2=3):
    a1, a2 = as_cell(a1), as_cell(a2)
    if t == 0:      # arithmetic, IF guard, SUM over a range with a blank, cross-sheet, name, array formula
        return {
            P + 'A1': a1, P + 'A2': a2, P + 'A3': '#EMPTY',
            P + 'B1': '=%sA1+%sA2' % (P, P),
            P + 'B2': '=IF(%sB1>7,%sA1*2,"small")' % (P, P),
            P + 'C1': '=SUM(%sA1:A3)' % P,
            Q + 'A1': '=%sB1*10' % P,
            NAME: '=%sA1' % P,
            P + 'D1': '=%s+1' % NAME,
            P + 'E1:F1': '={1,2}*%sA2' % P,
            P + 'G1': '=%sA2&"z"' % P,
        }
    if t == 1:      # errors and their interception, text, comparison, nested calls
        return {
            P + 'A1': a1, P + 'A2': a2, P + 'A3': 2,
            P + 'B1': '=%sA1/%sA2' % (P, P),
            P + 'B2': '=IFERROR(%sB1,-1)' % P,
            P + 'C1': '=IF(ISERROR(%sA1),0,1)' % P,
            Q + 'A1': '=LEN(%sA1&"ab")' % P,
            NAME: '=%sA1' % P,
            P + 'D1': '=MAX(%sA2:A3,%sB2)' % (P, P),
            P + 'E1:F1': '=%sA2:A3*{1,10}' % P if False else '={1,10}+%sA3' % P,
            P + 'G1': '=%sA1=%sA2' % (P, P),
        }
    # t == 2: two workbooks
    return {
        P + 'A1': a1, P + 'A2': a2, P + 'A3': 4,
        R + 'A1': '=%sA1*2' % P,
        R + 'A2': 10,
        P + 'B1': '=%sA1+%sA2' % (R, R),
        P + 'B2': '=IF(%sA1>3,%sB1,%sA2)' % (P, P, R),
        P + 'C1': '=SUM(%sA1:A3)' % P,
        Q + 'A1': '=%sB2-1' % P,
        NAME: '=%sA1' % P,
        P + 'D1': '=%s*3' % NAME,
        P + 'E1:F1': '={3,4}-%sA2' % P,
        P + 'G1': '=COUNT(%sA1:A3)' % P,
    }


def build(t, a1=5, a2=3, finish=True):
    m = formulas.ExcelModel().from_dict(template(t, a1, a2))
    if finish:
        m.finish(complete=False)
    return m


def norm_value(v):
    if isinstance(v, np.ndarray):
        return [[norm_value(x) for x in row] for row in np.atleast_2d(v).tolist()] if v.ndim else norm_value(v.tolist())
    if isinstance(v, XlError):
        return str(v)
    if v is sh.EMPTY:
        return 'EMPTY'
    if isinstance(v, (bool, np.bool_)):
        return ('b', bool(v))
    if isinstance(v, (int, float, np.number)):
        return round(float(v), 9)
    if isinstance(v, str):
        return ('s', v)
    if isinstance(v, list):
        return [norm_value(x) for x in v]
    return repr(v)


def norm(sol, only=None):
    out = {}
    for k, v in sol.items():
        if isinstance(k, sh.Token) or (only is not None and k not in only) or k in VOLATILE:
            continue
        x = norm_value(v.value if hasattr(v, 'value') else v)
        # a supplied input that no requested output needs is handed back as given (5, not
        # the 1x1 range [[5]]): same value, compare modulo that wrapping
        out[k] = x if isinstance(x, list) else [[x]]
    return out


RANGE = {0: (P + 'A1:A3', ['A1', 'A2', 'A3']), 1: (P + 'A2:A3', ['A2', 'A3']), 2: (P + 'A1:A3', ['A1', 'A2', 'A3'])}
CELLS_OUT = [P + 'B1', P + 'B2', P + 'C1', Q + 'A1', P + 'D1', P + 'E1:F1', P + 'J2']


def override_sets():
    """(label, inputs) - the statement's override kinds"""
    pl = pool()
    sets = [('none', {})]
    for i, v in enumerate(pl):
        sets.append(('cell%d' % i, {P + 'A1': v}))
    sets.append(('name', {NAME: 9}))
    sets.append(('range', {P + 'A1:A3': [[2], [8], [1]]}))
    sets.append(('range2', {P + 'A2:A3': [[6], [2]]}))
    sets.append(('block', {BLOCK: [[4, 7], [9, 'q']]}))
    sets.append(('formula', {P + 'B1': 100}))
    sets.append(('two+sparse range', {P + 'A1': 1, P + 'A2': 0, P + 'I1:I5': [[1], [2], [3], [4], [5]]}))   # a sparse range as a whole
    sets.append(('sparse', {P + 'H3': 6, P + 'H6': 1}))      # cells that are blank in the model (H6 is read through the solution)
    return sets


def apply_op(m, op):
    """one operation of a history; returns nothing observable"""
    pl = pool()
    if op == 0:
        m.calculate()
    elif op == 1:
        m.calculate(inputs={P + 'A1': pl[1]})
    elif op == 2:
        m.calculate(inputs={NAME: pl[4]})
    elif op == 3:
        m.calculate(inputs={P + 'A1:A3': [[7], [0], [2]], P + 'A2:A3': [[0], [2]], P + 'H1:H7': [[1], [2], [3], [4], [5], [6], [7]]})
    elif op == 4:
        m.calculate(outputs=[Q + 'A1'])
    elif op == 5:
        m.compile([P + 'A1'], [Q + 'A1', P + 'B2'])(pl[6])
    elif op == 6:
        m.to_dict()
    elif op == 7:
        m.write()
    elif op == 8:
        copy.deepcopy(m).calculate(inputs={P + 'A2': 99})
    elif op == 9:
        m.calculate(inputs={P + 'B1': 100})
    elif op == 10:
        m.calculate(inputs={P + 'A1': pl[6], P + 'A2': pl[3], P + 'H6': 5, P + 'H4': 2})       # H4, H6 are blank in the model
    elif op == 11:
        m.compile([NAME, P + 'A2'], [P + 'D1', P + 'C1'])(3, 4)
    elif op == 12:
        m.calculate(inputs={BLOCK: [[0, 1], [2, 3]]})
    elif op == 13:
        m.compile([BLOCK], [P + 'J1', P + 'J2'])([[5, 6], [7, 8]])
    else:
        raise ValueError(op)


NOPS = 14


def fixed_point(d, sol, skip=()):
    """every formula cell of the dictionary model d equals its own formula (compiled ALONE) applied to the solved
    values of the cells it refers to; every constant holds its stored value"""
    from formulas.ranges import Ranges
    got = norm(sol)
    for k, v in d.items():
        if not (isinstance(v, str) and v.startswith('=')) or "]'!" in k or k in skip or k == P + 'K8':
            continue                      # defined names have no place of their own; a volatile cell is not a function of cells
        func = formulas.Parser().ast(v)[1].compile()
        args = []
        for name, rng in func.inputs.items():
            if name in sol:
                args.append(sol[name])
                continue
            # a multi-area reference is one argument: the union of the calculated areas
            areas = getattr(rng, 'ranges', None)
            if not areas or any(r['name'] not in sol for r in areas):
                return False
            arg = Ranges(areas)
            for r in areas:
                arg.values.update(sol[r['name']].values)
            args.append(arg)
        val = func(*args)
        shp = np.shape(sol[k].value)
        fit = Ranges().push(k, val).value if shp != (1, 1) else val
        fit = norm_value(np.asarray(fit, object).reshape(shp) if np.size(fit) == np.prod(shp) else fit)
        have = norm_value(sol[k].value)
        if fit != have:
            return False
    for k, v in d.items():
        if not isinstance(v, str) or not v.startswith('='):
            want = norm_value([[sh.EMPTY]] if v == '#EMPTY' else v)
            if k in got and got[k] != (want if isinstance(want, list) else [[want]]):
                return False
    return True

# C03 harness, workbook level (tier S): a calculated model is a fixed point of its own
# formulas and does not depend on the order in which cells were added.
from vlib.stubs import apply_common
apply_common()
from vlib.sel import sel, concrete
import numpy as np
import formulas
from formulas.ranges import Ranges

T = __T__
# ---- workbook level -----------------------------------------------------------
import models as M


def _fixed_point(order, i, j):
    pl = M.pool()
    d = M.template(T, pl[i], pl[j])
    keys = list(d)
    if order == 1:
        keys = keys[::-1]
    elif order == 2:
        keys = sorted(keys)
    elif order == 3:
        keys = keys[1::2] + keys[0::2]
    elif order == 4:
        keys = [k for k in keys if '=' in str(d[k])] + [k for k in keys if '=' not in str(d[k])]
    elif order == 5:
        keys = sorted(keys, reverse=True)
    m = formulas.ExcelModel().from_dict({k: d[k] for k in keys}).finish(complete=False)
    sol = m.calculate()
    got = M.norm(sol)
    base = M.norm(M.build(T, pl[i], pl[j]).calculate())
    if got != base:
        return False              # the result does not depend on the order cells were added
    # fixed point: every formula cell equals its own formula applied to the values of the cells it refers to;
    # constants hold their stored values
    return M.fixed_point(d, sol)


def fixed_point_ok(o0: bool, o1: bool, o2: bool, i0: bool, i1: bool, i2: bool, j0: bool, j1: bool, j2: bool) -> bool:
    """
    pre: sel(o0, o1, o2) < 6
    post: _
    """
    return concrete(_fixed_point, sel(o0, o1, o2), sel(i0, i1, i2), sel(j0, j1, j2))

# C03 harness: (k) the index arithmetic that wires cells to ranges, for every
# position of the grid (symbolic rectangles, symbolic witness cell);
# (w) workbook level (tier S): fixed point and independence of insertion order.
from vlib.stubs import apply_common
apply_common()
from vlib.sel import sel, concrete
import numpy as np
import formulas
import formulas.ranges as R

MAXC, MAXR = R.maxcol, R.maxrow
_str = str
R.str = lambda v: v


def mk(n1, n2, r1, r2):
    return {'sheet_id': 'S', 'n1': n1, 'n2': n2, 'r1': r1, 'r2': r2, 'name': ('S', n1, r1, n2, r2)}


def indices_ok(a1: int, a2: int, b1: int, b2: int, c1: int, c2: int, d1: int, d2: int) -> bool:
    """
    pre: 1 <= a1 <= c1 <= c2 <= a2 <= MAXC and 1 <= b1 <= d1 <= d2 <= b2 <= MAXR
    post: _
    """
    # a rectangle i inside base: the two slices select exactly its rows / columns, as offsets
    base, i = mk(a1, a2, b1, b2), mk(c1, c2, d1, d2)
    r, c = R._get_indices_intersection(base, i)
    return (r.start, r.stop, c.start, c.stop) == (d1 - b1, d2 - b1 + 1, c1 - a1, c2 - a1 + 1) and r.step is None and c.step is None


def indices_whole_ok(a1: int, a2: int, d1: int, d2: int, c1: int, c2: int) -> bool:
    """
    pre: 1 <= a1 <= c1 <= c2 <= a2 <= MAXC and 1 <= d1 <= d2 <= MAXR
    post: _
    """
    # whole-column base (rows 0..MAXR): row offsets count from row 1
    base, i = mk(a1, a2, 0, MAXR), mk(c1, c2, d1, d2)
    r, c = R._get_indices_intersection(base, i)
    return (r.start, r.stop, c.start, c.stop) == (d1 - 1, d2, c1 - a1, c2 - a1 + 1)


class Grid:
    """records out[rows, cols] = value[rows, cols] assignments (no numpy)"""

    def __init__(self, log=None, tag=None):
        self.log = [] if log is None else log
        self.tag = tag

    def __getitem__(self, key):
        return ('slice', self.tag, key)

    def __setitem__(self, key, val):
        self.log.append((key, val))


def assemble_ok(a1: int, a2: int, b1: int, b2: int, c1: int, c2: int, d1: int, d2: int, c: int, r: int) -> bool:
    """
    pre: 1 <= a1 <= a2 <= MAXC and 1 <= b1 <= b2 <= MAXR
    pre: 1 <= c1 <= c2 <= MAXC and 1 <= d1 <= d2 <= MAXR
    pre: a1 <= c <= a2 and b1 <= r <= b2
    post: _
    """
    # _assemble_values(base, {name: (rng, value)}, out): the witness cell (c, r) of base is written
    # iff it lies in rng, and then from the element of `value` at the cell's own offset in rng
    base, rng = mk(a1, a2, b1, b2), mk(c1, c2, d1, d2)
    out = Grid()
    R._assemble_values(base, {'k': (rng, Grid(tag='v'))}, out)
    inside = c1 <= c <= c2 and d1 <= r <= d2
    hit = 0
    for (br, bc), val in out.log:
        if br.start <= r - b1 < br.stop and bc.start <= c - a1 < bc.stop:
            hit += 1
            _, tag, (rr, rc) = val
            # same extent on both sides, and the source element is the cell's own offset in rng
            if (br.stop - br.start, bc.stop - bc.start) != (rr.stop - rr.start, rc.stop - rc.start):
                return False
            if (rr.start + (r - b1 - br.start), rc.start + (c - a1 - bc.start)) != (r - d1, c - c1):
                return False
    return hit == (1 if inside else 0)



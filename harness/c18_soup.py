# C18 harness: token soups given to the real Parser().ast.  Token indices are
# boolean selectors; the first K tokens are fixed per generated copy.
from vlib.stubs import apply_common
apply_common()
from vlib.sel import sel, concrete
import formulas
from formulas.errors import FormulaError

V = ['1', '"a"', 'A1', '#REF!', '+', '-', '*', '%', '^', '&', '=', ' ', ':', '(', ')', ',', 'SUM(', '{', '}', ';', '\t', '\n', '#n/a']
NV = len(V)
PREFIX = __PREFIX__        # indices of the leading tokens fixed in this copy
OPERANDS = (0, 1, 2, 3, 22)
LITERALS = (1, 3, 22)      # text and error literals never fuse with a neighbour
KNOWN_COLON = __KNOWN_COLON__
P = formulas.Parser()


def outcome(text):
    # the text is concrete on every explored path: run the parser natively
    return concrete(_outcome, text)


def _outcome(text):
    try:
        r = P.ast(text)
    except FormulaError:
        return ('rejected',)
    except RecursionError:
        return ('RecursionError',)
    except Exception as e:
        return (type(e).__name__,)
    return ('ok', r[1][-1].get_expr) if isinstance(r, tuple) and len(r) == 2 else ('bad return',)


def must_reject(seq):
    """syntactic rejection classes of the statement, decided on the token list"""
    depth, brace = 0, 0
    for i in seq:
        s = V[i]
        if s in ('(', 'SUM('):
            depth += 1
        elif s == ')':
            depth -= 1
        elif s == '{':
            brace += 1
        elif s == '}':
            brace -= 1
        if depth < 0 or brace < 0:
            return True
    if depth or brace:
        return True                                   # unbalanced parentheses / braces
    for a, b in zip(seq, seq[1:]):
        if a in OPERANDS and b in OPERANDS and (a in LITERALS or b in LITERALS) and (a, b) != (1, 1):
            return True                               # two adjacent operands (text / error literal cannot fuse;
            #                                           "a""a" is ONE text with an escaped quote)
        if V[a] in ('%', ')', '}') and (b in OPERANDS or V[b] in ('(', 'SUM(', '{')):
            return True                               # a value directly after a postfix % or a closing bracket
        if a in OPERANDS and V[b] in ('(', 'SUM(', '{') and a in LITERALS:
            return True                               # an opening bracket / call directly after text or an error literal
    # ragged array rows: inside one pair of braces (no nested brackets) every row has
    # the same number of top-level commas
    i = 0
    while i < len(seq):
        if V[seq[i]] == '{':
            j, rows, cur, flat = i + 1, [], 0, True
            while j < len(seq) and V[seq[j]] != '}':
                t = V[seq[j]]
                if t in ('(', 'SUM(', '{', ')'):
                    flat = False
                if t == ',':
                    cur += 1
                if t == ';':
                    rows.append(cur)
                    cur = 0
                j += 1
            rows.append(cur)
            if flat and j < len(seq) and len(set(rows)) > 1:
                return True
            i = j
        i += 1
    for a, b in zip(seq, seq[1:]):
        if V[a] in (',', ';', '(', 'SUM(', '{') and V[b] in ('*', '^', '&', '='):
            return True                               # a binary operator whose left operand is missing
        if not KNOWN_COLON and V[b] == ':' and not (a in (0, 2) or V[a] in (')', ' ')):
            return True                               # the range operator without a first corner (known finding when excluded)
    if not KNOWN_COLON and V[seq[0]] == ':':
        return True
    if V[seq[-1]] in ('+', '-', '*', '^', '&', '='):
        return True                                   # operator without right operand
    if V[seq[0]] in ('*', '^', '&', '=', '%'):
        return True                                   # operator without left operand
    return False


SPACE = V.index(' ')


def check(seq):
    text = '=' + ''.join(V[i] for i in seq)
    o = outcome(text)
    if o[0] not in ('ok', 'rejected'):
        return False                                  # a foreign exception escaped
    if any(V[i] in ('\t', '\n') for i in seq):
        # a tab or a line break is whitespace: same reading as with a blank in its place
        seq = [SPACE if V[i] in ('\t', '\n') else i for i in seq]
        if outcome('=' + ''.join(V[i] for i in seq)) != o:
            return False
    return o[0] == 'rejected' or not must_reject(seq)


def soup1_ok(a0: bool, a1: bool, a2: bool, a3: bool, a4: bool) -> bool:
    """
    pre: sel(a0, a1, a2, a3, a4) < NV
    post: _
    """
    return check(list(PREFIX) + [sel(a0, a1, a2, a3, a4)])


def soup2_ok(a0: bool, a1: bool, a2: bool, a3: bool, a4: bool, b0: bool, b1: bool, b2: bool, b3: bool, b4: bool) -> bool:
    """
    pre: sel(a0, a1, a2, a3, a4) < NV and sel(b0, b1, b2, b3, b4) < NV
    post: _
    """
    return check(list(PREFIX) + [sel(a0, a1, a2, a3, a4), sel(b0, b1, b2, b3, b4)])


# --- single-edit mutations of valid formulas ---------------------------------
VALID = [
    [0, 4, 0],                          # 1+1
    [16, 2, 15, 0, 14, 6, 0],           # SUM(A1,1)*1
    [13, 0, 4, 0, 14, 8, 0],            # (1+1)^1
    [17, 0, 15, 0, 19, 0, 15, 0, 18],   # {1,1;1,1}
    [5, 2, 9, 1],                       # -A1&"a"
    [16, 17, 0, 15, 0, 18, 15, 16, 14, 14],   # SUM({1,1},SUM())
    [17, 0, 15, 1, 15, 0, 19, 0, 15, 0, 15, 0, 19, 0, 15, 0, 15, 0, 18][:16],   # placeholder, replaced below
]
VALID[6] = [17, 0, 15, 1, 19, 2, 15, 0, 19, 0, 15, 0, 18]     # {1,"a";A1,1;1,1}
VALID = __VALID__ or VALID


def edit_ok(f: int, k0: bool, k1: bool, k2: bool, k3: bool, p0: bool, p1: bool, p2: bool, p3: bool,
            t0: bool, t1: bool, t2: bool, t3: bool, t4: bool) -> bool:
    """
    pre: 0 <= f < len(VALID)
    pre: sel(k0, k1) < 3 and sel(p0, p1, p2, p3) <= len(VALID[f]) and sel(t0, t1, t2, t3, t4) < NV
    pre: not (k2 or k3)
    post: _
    """
    # delete / insert / replace ONE token of a valid formula
    base = list(VALID[f])
    kind, pos, tok = sel(k0, k1), sel(p0, p1, p2, p3), sel(t0, t1, t2, t3, t4)
    if kind == 0:
        if pos >= len(base):
            return True
        seq = base[:pos] + base[pos + 1:]
    elif kind == 1:
        seq = base[:pos] + [tok] + base[pos:]
    else:
        if pos >= len(base):
            return True
        seq = base[:pos] + [tok] + base[pos + 1:]
    if not seq:
        return outcome('=')[0] == 'rejected'
    return check(seq)


def valid_ok(f: int) -> bool:
    """
    pre: 0 <= f < len(VALID)
    post: _
    """
    # the unedited formulas are accepted (the mutation test is not vacuous)
    return outcome('=' + ''.join(V[i] for i in VALID[f]))[0] == 'ok'

# C01 harness: the real Parser().ast against formula trees chosen by selector
# variables.  The oracle is the tree itself (spec/grammar.py: full / spell).
from vlib.stubs import apply_common
apply_common()
import formulas
from formulas.tokens.operator import Operator
from vlib.sel import concrete
from spec.grammar import BIN_OPS, RANK, REPS, full, spell, has_sign_run

OPS = __OPS__                 # binary operators the selector indices range over
NOPS = len(OPS)
KNOWN_SIGN_RUN = __KNOWN_SIGN_RUN__
FIX_A = __FIX_A__             # partition: first operator index fixed per generated copy (or None)
WS = ['', ' ', '  ']


def _parse(text):
    return formulas.Parser().ast(text)[1][-1].get_expr


def parse(text):
    # the spelling is concrete on every explored path: run the parser natively
    return concrete(_parse, text)


def agree(tree, redundant, ws, lower=False):
    text = '=' + spell(tree, redundant, WS[ws], lower)
    if KNOWN_SIGN_RUN and has_sign_run(text):
        return True
    return parse(text) == full(tree)


N = [('num', '1'), ('num', '2'), ('num', '3'), ('num', '4')]

# the five binary trees with three internal nodes, leaves in order 1 2 3 4
SHAPES3 = [
    lambda a, b, c: ('bin', c, ('bin', b, ('bin', a, N[0], N[1]), N[2]), N[3]),
    lambda a, b, c: ('bin', c, ('bin', a, N[0], ('bin', b, N[1], N[2])), N[3]),
    lambda a, b, c: ('bin', b, ('bin', a, N[0], N[1]), ('bin', c, N[2], N[3])),
    lambda a, b, c: ('bin', a, N[0], ('bin', c, ('bin', b, N[1], N[2]), N[3])),
    lambda a, b, c: ('bin', a, N[0], ('bin', b, N[1], ('bin', c, N[2], N[3]))),
]


def pair_ok(a: int, b: int, right: bool, redundant: bool, ws: int) -> bool:
    """
    pre: 0 <= a < NOPS and 0 <= b < NOPS and 0 <= ws < 3
    pre: FIX_A is None or a == FIX_A
    post: _
    """
    # every ordered pair of binary operators, both groupings, three spellings
    if right:
        t = ('bin', OPS[a], N[0], ('bin', OPS[b], N[1], N[2]))
    else:
        t = ('bin', OPS[b], ('bin', OPS[a], N[0], N[1]), N[2])
    return agree(t, redundant, ws)


def triple_ok(a: int, b: int, c: int, shape: int, redundant: bool) -> bool:
    """
    pre: 0 <= a < NOPS and 0 <= b < NOPS and 0 <= c < NOPS and 0 <= shape < 5
    pre: FIX_A is None or a == FIX_A
    post: _
    """
    return agree(SHAPES3[shape](OPS[a], OPS[b], OPS[c]), redundant, 0)


def unary_ok(a: int, where: int, minus: bool, redundant: bool, ws: int) -> bool:
    """
    pre: 0 <= a < NOPS and 0 <= where < 8 and 0 <= ws < 3
    pre: FIX_A is None or a == FIX_A
    post: _
    """
    # a unary sign or a postfix % at every position of a one-operator tree
    s = '-' if minus else '+'
    x, y, op = N[0], N[1], OPS[a]
    t = [
        ('bin', op, ('neg', s, x), y),            # -1 op 2
        ('bin', op, x, ('neg', s, y)),            # 1 op -2
        ('neg', s, ('bin', op, x, y)),            # -(1 op 2)
        ('bin', op, ('pct', x), y),               # 1% op 2
        ('bin', op, x, ('pct', y)),               # 1 op 2%
        ('pct', ('bin', op, x, y)),               # (1 op 2)%
        ('bin', op, ('neg', s, ('pct', x)), y),   # -(1%) op 2
        ('bin', op, ('pct', ('neg', s, x)), y),   # -1% op 2   i.e. (-1)% op 2
    ][where]
    return agree(t, redundant, ws)


def unary_nest_ok(where: int, m1: bool, m2: bool) -> bool:
    """
    pre: 0 <= where < 4
    post: _
    """
    s1, s2 = ('-' if m1 else '+'), ('-' if m2 else '+')
    x = N[0]
    t = [
        ('neg', s1, ('pct', x)),                          # -(1%)
        ('pct', ('neg', s1, ('pct', x))),                 # (-(1%))%  -> needs parentheses
        ('neg', s1, ('bin', '^', ('neg', s2, x), N[1])),  # -(-1^2)
        ('bin', '^', x, ('neg', s1, ('bin', '^', N[1], N[2]))),  # 1^-(2^3)
    ][where]
    return agree(t, False, 0) and agree(t, True, 0)


ARGS = [('empty',), ('num', '1'), ('bin', '+', ('num', '1'), ('num', '2')), ('str', 'a,""b'),
        ('par', ('bin', ',', ('ref', 'A1'), ('ref', 'B2'))), ('neg', '-', ('num', '3')), ('pct', ('num', '5'))]
NARGS = len(ARGS)


def func_ok(n: int, a0: int, a1: int, a2: int, a3: int, lower: bool, ws: int, nest: bool) -> bool:
    """
    pre: 0 <= n <= 4 and 0 <= ws < 3
    pre: 0 <= a0 < NARGS and 0 <= a1 < NARGS and 0 <= a2 < NARGS and 0 <= a3 < NARGS
    post: _
    """
    # argument counting: empty arguments keep their position, separators inside
    # strings and inside parenthesised unions do not split
    args = [ARGS[i] for i in (a0, a1, a2, a3)[:n]]
    if n == 1 and args[0] == ('empty',):
        args = []          # F() and F(<empty>) are one spelling
    t = ('fun', 'SUM', args)
    if nest:
        t = ('fun', 'MAX', [('num', '7'), t, ('empty',)])
    return agree(t, False, ws, lower)


CELLS = [('num', '1'), ('str', 'x;""y'), ('num', '-2'), ('err', '#N/A'), ('num', 'TRUE'), ('pct', ('num', '5'))]


def array_ok(r: int, c: int, k: int, ws: int) -> bool:
    """
    pre: 1 <= r <= 3 and 1 <= c <= 3 and 0 <= k < 6 and 0 <= ws < 3
    post: _
    """
    # array literal rows/columns split only at top-level separators
    rows = [[CELLS[(k + i * c + j) % 6] for j in range(c)] for i in range(r)]
    t = ('arr', rows)
    return agree(t, False, ws) and agree(('fun', 'SUM', [t, ('num', '1')]), False, ws)


REFS = [('ref', 'A1'), ('ref', 'B2:C3'), ('ref', '$D$4'), ('ref', 'e5')]


def refop_ok(o1: int, o2: int, x: int, y: int, z: int, right: bool) -> bool:
    """
    pre: 0 <= o1 < 2 and 1 <= o2 < 3 and 0 <= x < 4 and 0 <= y < 4 and 0 <= z < 4
    pre: o1 != 0 or (not right and x == 1 and y != 1)
    post: _
    """
    # reference operators (equal rank, left to right) inside a function argument.
    # ':' is exercised as an operator only where the tokenizer cannot fuse it into
    # a single A1:B2 reference token: B2:C3:<cell>.  The first operator is never
    # the union: the statement fixes no grouping for a run of commas (the code
    # nests them to the right, which denotes the same areas in the same order).
    R = [':', ' ', ',']
    a, b = R[o1], R[o2]
    if right:
        t = ('bin', a, REFS[x], ('bin', b, REFS[y], REFS[z]))
    else:
        t = ('bin', b, ('bin', a, REFS[x], REFS[y]), REFS[z])
    # the whole reference expression sits in its own parentheses (union vs argument separator)
    t = ('fun', 'SUM', [('par', t)])
    return agree(t, False, 0)


def pop_rule_ok(p0: int, p1: int, p2: int, pn: int, depth: int) -> bool:
    """
    pre: 0 <= depth <= 3
    pre: 0 <= p0 <= 9 and 0 <= p1 <= 9 and 0 <= p2 <= 9 and 0 <= pn <= 9
    post: _
    """
    # Operator.ast for EVERY precedence table: the operators popped are exactly
    # the maximal top segment of the stack with P(top) >= P(new)
    names = ['a', 'b', 'c']
    saved = Operator._precedences
    Operator._precedences = {'a': p0, 'b': p1, 'c': p2, 'n': pn}
    try:
        def tok(name):
            t = Operator.__new__(Operator)
            t.source, t.attr = name, {'name': name}
            return t
        stack = [tok(nm) for nm in names[:depth]]
        before = list(stack)
        out, tokens = [], []
        new = tok('n')
        Operator.ast(new, tokens, stack, out)
        ps = [p0, p1, p2][:depth]
        k = depth
        while k > 0 and ps[k - 1] >= pn:
            k -= 1
        return out == before[k:][::-1] and stack == before[:k] + [new] and tokens == [new]
    finally:
        Operator._precedences = saved

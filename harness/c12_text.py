# C12 harness (Engine A): text and logical / information functions on symbolic
# strings, integers and booleans.  The kernels are the safe_eval closures inside
# the registered functions (input parser + function + exception mapping), the
# specifications are written from Excel's definitions with Python slicing.
from typing import Union
from vlib.stubs import apply_common
apply_common()
from vlib.sel import sel, concrete
import schedula as sh
import numpy as np
from formulas.functions import get_functions, Error
from formulas.tokens.operand import XlError

F = get_functions()
START = __START__        # partition constant (start position / instance / condition class)
E = Error.errors
VALUE, NA, DIV = E['#VALUE!'], E['#N/A'], E['#DIV/0!']
ERRS = [E[k] for k in ('#NULL!', '#DIV/0!', '#VALUE!', '#REF!', '#NUM!', '#NAME?', '#N/A')]


def closure_of(f, name):
    w = f['function'] if isinstance(f, dict) else f
    while hasattr(w, '__wrapped__'):
        w = w.__wrapped__
        if getattr(w, '__closure__', None):
            for c, n in zip(w.__closure__, w.__code__.co_freevars):
                if n == name:
                    return c.cell_contents
    raise LookupError(name)


def scal(v):
    v = np.ravel(v)[0] if isinstance(v, np.ndarray) else v
    return bool(v) if isinstance(v, np.bool_) else v


def kernel(name):
    try:
        se, ap = closure_of(F[name], 'safe_eval'), closure_of(F[name], 'args_parser')
    except LookupError:      # not an element-wise wrapper: the public callable itself (information functions)
        f = F[name]['function'] if isinstance(F[name], dict) else F[name]
        return lambda *a: scal(f(*a))
    return lambda *a: scal(se(*ap(*a)))


K = {n: kernel(n) for n in ('LEFT', 'RIGHT', 'MID', 'REPLACE', 'FIND', 'SEARCH', 'SUBSTITUTE', 'LEN', 'UPPER', 'LOWER',
                            'TRIM', 'CONCATENATE', 'IF', 'IFERROR', 'IFNA', 'NOT', 'ISERROR', 'ISERR', 'ISNA',
                            'ISNUMBER', 'ISTEXT', 'ISLOGICAL', 'ISBLANK', 'ISNONTEXT')
     if n in F}


def small(s, n=3):
    return len(s) <= n and all(ch in 'abAB 1' for ch in s)


# ---- slicing functions ---------------------------------------------------------
def left_right_ok(s: str, n: int) -> bool:
    """
    pre: small(s, 4) and -2 <= n <= 6
    post: _
    """
    l, r = K['LEFT'](s, n), K['RIGHT'](s, n)
    if n < 0:
        return l is VALUE and r is VALUE
    return l == s[:n] and r == (s[len(s) - n:] if n < len(s) else s)


def mid_ok(s: str, start: int, n: int) -> bool:
    """
    pre: small(s, 4) and -2 <= start <= 6 and -2 <= n <= 6
    post: _
    """
    got = K['MID'](s, start, n)
    if start < 1 or n < 0:
        return got is VALUE
    return got == s[start - 1:start - 1 + n]


def replace_ok(s: str, start: int, n: int, new: str) -> bool:
    """
    pre: small(s) and small(new, 2) and -2 <= start <= 5 and -2 <= n <= 5
    post: _
    """
    got = K['REPLACE'](s, start, n, new)
    if start < 1 or n < 0:
        return got is VALUE
    return got == s[:start - 1] + new + s[start - 1 + n:]


A3 = 'aB '


def pick3(n, c0, c1, c2):
    """text of length n (<= 3) over the alphabet a B blank, spelled by selector digits"""
    return (A3[c0] + A3[c1] + A3[c2])[:n]


FINDS = ['', 'a', 'b', 'B', ' ', 'ab', 'aB', 'B ']


TEXTS3 = [''] + [a for a in A3] + [a + b for a in A3 for b in A3] + [a + b + c for a in A3 for b in A3 for c in A3]


def find_spec(find, within, start, fold):
    if fold:
        find, within = find.lower(), within.lower()
    if start < 1 or start > len(within) + 1:
        return VALUE
    for p in range(start - 1, len(within) - len(find) + 1):
        if within[p:p + len(find)] == find:
            return p + 1
    return VALUE


def _find(f, w, start):
    find, within = FINDS[f], TEXTS3[w]
    a, b = K['FIND'](find, within, start), K['SEARCH'](find, within, start)
    return a == find_spec(find, within, start, False) and b == find_spec(find, within, start, True)


def find_ok(f0: bool, f1: bool, f2: bool, w0: bool, w1: bool, w2: bool, w3: bool, w4: bool, w5: bool,
            s0: bool, s1: bool, s2: bool) -> bool:
    """
    pre: sel(w0, w1, w2, w3, w4, w5) < len(TEXTS3)
    pre: sel(s0, s1, s2) == START
    post: _
    """
    # FIND is case-sensitive, SEARCH is not; positions are 1-based; a start position below 1
    # or beyond the text is #VALUE!
    return concrete(_find, sel(f0, f1, f2), sel(w0, w1, w2, w3, w4, w5), sel(s0, s1, s2) - 1)


def substitute_spec(text, old, new, inst):
    if inst is not None and inst < 1:
        return VALUE
    if old == '':
        return text
    if inst is None:
        return text.replace(old, new)
    pos, count = 0, 0
    while True:
        i = text.find(old, pos)
        if i < 0:
            return text
        count += 1
        if count == inst:
            return text[:i] + new + text[i + len(old):]
        pos = i + len(old)


_TEXTS3_LATE = [''] + [a for a in A3] + [a + b for a in A3 for b in A3] + [a + b + c for a in A3 for b in A3 for c in A3]
OLDS = ['', 'a', 'B', ' ', 'aa', 'aB', 'B ', 'a ']
NEWS = ['', 'B', 'aa', ' ']


def _subst(t, o, n, inst):
    text, old, new = TEXTS3[t], OLDS[o], NEWS[n]
    if inst == 5:
        return K['SUBSTITUTE'](text, old, new) == substitute_spec(text, old, new, None)
    return K['SUBSTITUTE'](text, old, new, inst) == substitute_spec(text, old, new, inst)


def substitute_ok(t0: bool, t1: bool, t2: bool, t3: bool, t4: bool, t5: bool, o0: bool, o1: bool, o2: bool,
                  n0: bool, n1: bool, i0: bool, i1: bool, i2: bool) -> bool:
    """
    pre: sel(t0, t1, t2, t3, t4, t5) < len(TEXTS3)
    pre: sel(i0, i1, i2) == START and START <= 6
    post: _
    """
    # instance -1..4, or 6 - 1 = 5 meaning "no instance argument"
    return concrete(_subst, sel(t0, t1, t2, t3, t4, t5), sel(o0, o1, o2), sel(n0, n1), sel(i0, i1, i2) - 1)


def trim_spec(s):
    # Excel TRIM: leading / trailing blanks removed, runs of blanks between words collapsed to one
    return ' '.join(w for w in s.split(' ') if w)


def _case_trim(n, c0, c1, c2, c3):
    s = (A3[c0] + A3[c1] + A3[c2] + A3[c3])[:n]
    return K['LEN'](s) == len(s) and K['UPPER'](s) == s.upper() and K['LOWER'](s) == s.lower() and \
        K['TRIM'](s) == trim_spec(s)


def len_case_trim_ok(n0: bool, n1: bool, n2: bool, c00: bool, c01: bool, c10: bool, c11: bool, c20: bool, c21: bool,
                     c30: bool, c31: bool) -> bool:
    """
    pre: sel(n0, n1, n2) <= 4 and sel(c00, c01) < 3 and sel(c10, c11) < 3 and sel(c20, c21) < 3 and sel(c30, c31) < 3
    post: _
    """
    return concrete(_case_trim, sel(n0, n1, n2), sel(c00, c01), sel(c10, c11), sel(c20, c21), sel(c30, c31))


VALS = [0, 1, -2, 3.5, True, False, 'a', '', 'TRUE', sh.EMPTY, 12, 'aB', '7', '-1.5', '1E+999']


def disp(v):
    if v is sh.EMPTY:
        return ''
    if isinstance(v, bool):
        return 'TRUE' if v else 'FALSE'
    if isinstance(v, float) and v == int(v):
        return str(int(v))
    return str(v)


def _coercion(i, n):
    # numbers, logicals and blanks are used through their display form
    v = VALS[i]
    d = disp(v)
    return K['LEN'](v) == len(d) and K['LEFT'](v, n) == d[:n] and K['CONCATENATE'](v, 'x', v) == d + 'x' + d and \
        K['UPPER'](v) == d.upper()


def text_coercion_ok(i0: bool, i1: bool, i2: bool, i3: bool, n0: bool, n1: bool, n2: bool) -> bool:
    """
    pre: sel(i0, i1, i2, i3) < len(VALS) and sel(n0, n1, n2) <= 4
    post: _
    """
    return concrete(_coercion, sel(i0, i1, i2, i3), sel(n0, n1, n2))


# ---- logical / information (values and errors by selectors: these functions go through numpy) ----
def same(a, b):
    return (a is b) if isinstance(b, XlError) or b is sh.EMPTY else (type(a) is type(b) and a == b)


LV = [0, 1, 3.5, True, False, 'a', '', sh.EMPTY]


def _logic(ci, xi, yi, ei):
    c, x, y, e = LV[ci], LV[xi], LV[yi], ERRS[ei]
    x0, y0 = (0 if x is sh.EMPTY else x), (0 if y is sh.EMPTY else y)
    got = K['IF'](c, x, y)
    if isinstance(c, str) and c is not sh.EMPTY:
        ok = got is VALUE                      # a text condition is #VALUE!
    else:
        ok = same(got, x0 if (c is not sh.EMPTY and c) else y0)
        ok = ok and K['NOT'](c) is (not (c is not sh.EMPTY and c))
    # an error condition is returned; errors in branches are just values
    ok = ok and K['IF'](e, x, y) is e and K['IF'](True, e, y) is e and same(K['IF'](False, e, y), y0)
    ok = ok and same(K['IFERROR'](x, y), x0) and same(K['IFERROR'](e, y), y0) and same(K['IFNA'](x, y), x0)
    ok = ok and (same(K['IFNA'](e, y), y0) if e is NA else K['IFNA'](e, y) is e)
    return ok


def logic_ok(c0: bool, c1: bool, c2: bool, x0: bool, x1: bool, x2: bool, y0: bool, y1: bool, y2: bool,
             e0: bool, e1: bool, e2: bool) -> bool:
    """
    pre: sel(e0, e1, e2) < 7 and sel(c0, c1, c2) == START
    post: _
    """
    return concrete(_logic, sel(c0, c1, c2), sel(x0, x1, x2), sel(y0, y1, y2), sel(e0, e1, e2))


def _is_family(i, ei):
    v, e = VALS[i], ERRS[ei]
    isnum = isinstance(v, (int, float)) and not isinstance(v, bool)
    istext = isinstance(v, str) and v is not sh.EMPTY
    ok = K['ISERROR'](v) is False and K['ISERROR'](e) is True
    ok = ok and K['ISERR'](e) is (e is not NA) and K['ISNA'](e) is (e is NA) and K['ISNA'](v) is False
    ok = ok and K['ISNUMBER'](v) is isnum and K['ISTEXT'](v) is istext and K['ISLOGICAL'](v) is isinstance(v, bool)
    ok = ok and K['ISNUMBER'](e) is False and K['ISTEXT'](e) is False and K['ISNONTEXT'](v) is (not istext)
    ok = ok and K['ISBLANK'](v) is (v is sh.EMPTY) and K['ISBLANK'](e) is False
    return ok


def is_family_ok(i0: bool, i1: bool, i2: bool, i3: bool, e0: bool, e1: bool, e2: bool) -> bool:
    """
    pre: sel(i0, i1, i2, i3) < len(VALS) and sel(e0, e1, e2) < 7
    post: _
    """
    return concrete(_is_family, sel(i0, i1, i2, i3), sel(e0, e1, e2))

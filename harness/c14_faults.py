# C14 harness (tier S): the fault schedule is the selector.  Three formula cells
# may each carry one of 7 faults; IFERROR / ISERROR cells watch them; one cell is
# independent of everything faulty.
from vlib.stubs import apply_common
apply_common()
from vlib.sel import sel, concrete
import logging
import formulas
import models as M
from formulas.tokens.operand import XlError

logging.getLogger('formulas').setLevel(logging.CRITICAL)
logging.getLogger('formulas.excel').setLevel(logging.CRITICAL)
P, Q = M.P, M.Q
F1 = __F1__          # fault of the first cell, fixed per generated copy
NF = 11
import os, tempfile
_DIR = tempfile.mkdtemp(prefix='c14-', dir=os.environ.get('VERIF_OUT', '/verif') + '/.work') if os.path.isdir(os.environ.get('VERIF_OUT', '/verif') + '/.work') else tempfile.mkdtemp(prefix='c14-')
with open(os.path.join(_DIR, 'broken.xlsx'), 'wb') as _f:
    _f.write(b'this is not a zip archive')       # a workbook file that exists but cannot be read
import atexit, shutil
atexit.register(shutil.rmtree, _DIR, True)
_BROKEN = "'%s/[broken.xlsx]S'!A1" % _DIR.replace(os.sep, '/')


def faulty(kind, healthy, arg):
    return [healthy,
            '=FOO(%s)' % arg,                    # 1 unimplemented function
            '=_xlfn.BARBAZ(%s)' % arg,           # 2 _xlfn.-prefixed unknown function
            "='[b]ZZ'!A1+%s" % arg,              # 3 absent sheet
            "='[zz.xlsx]S'!A1+%s" % arg,         # 4 absent workbook file
            '=NONAME+%s' % arg,                  # 5 undefined name
            '=#REF!+%s' % arg,                   # 6 #REF! literal
            "=SUM('[b]ZZ'!A1:A2)+%s" % arg,      # 7 range on an absent sheet
            '=%s+%s' % (_BROKEN, arg),           # 8 workbook file that exists but is unreadable
            '=IF(%s>100,NONAME,OTHERNAME)+%s' % (arg, arg),   # 9 two different undefined names in one formula
            '=MARGIN+%s' % arg,                  # 10 a DEFINED name whose own formula uses an undefined name
            ][kind]


def expected_error(kind):
    return {1: ('#NAME?',), 2: ('#NAME?',), 3: ('#REF!',), 4: ('#REF!',), 5: ('#REF!', '#NAME?'), 6: ('#REF!',), 7: ('#REF!',),
            8: ('#REF!',), 9: ('#REF!', '#NAME?'), 10: ('#REF!', '#NAME?')}[kind]


def build(k1, k2, k3):
    return {
        P + 'A1': 5, P + 'A2': 3,
        P + 'B1': faulty(k1, '=%sA1+1' % P, P + 'A1'),
        P + 'B2': faulty(k2, '=%sA2*2' % P, P + 'A2'),
        Q + 'A1': faulty(k3, '=%sB1+%sB2' % (P, P), P + 'B1'),
        P + 'D1': '=IFERROR(%sB1,-1)' % P,
        P + 'D2': '=ISERROR(%sB2)' % P,
        P + 'D3': '=IF(ISERROR(%sA1),"bad","fine")' % Q,
        P + 'G1': '=%sA2*2+%sA1' % (P, P),
        P + 'G2': '=IFERROR(NONAME,1)+IFERROR(OTHERNAME,2)+ISERROR(THIRDNAME)',
        P + 'H1': '=%sA1+1' % Q,
        "'[b]'!MARGIN": '=BASERATE*2',
    }


def _run(k1, k2, k3, finish):
    m = formulas.ExcelModel().from_dict(build(k1, k2, k3))
    if finish:
        m.finish()
    sol = m.calculate()
    val = lambda k: M.norm_value(sol[k].value)[0][0]
    b1, b2, ta1 = val(P + 'B1'), val(P + 'B2'), val(Q + 'A1')
    # the cell that depends on nothing unresolved keeps its value
    if val(P + 'G1') != 11.0 or val(P + 'A1') != 5.0 or val(P + 'A2') != 3.0:
        return False
    if val(P + 'G2') != 4.0:
        return False                       # several undefined names, each intercepted on its own
    absent = (3, 4, 7, 8)          # resolved to #REF! when the model is completed; blank otherwise (not loaded yet)
    def check(kind, got, healthy):
        if kind == 0:
            return got == healthy
        if kind in absent and not finish:
            return True         # the statement is about loading / completion: unfinished model out of scope
        return isinstance(got, str) and got in expected_error(kind)
    if not check(k1, b1, 6.0) or not check(k2, b2, 6.0):
        return False
    def is_err(v):
        return isinstance(v, str)
    # downstream of B1 / B2 (left-most error wins), or its own fault
    if k3 == 0:
        if is_err(b1) or is_err(b2):
            if ta1 != (b1 if is_err(b1) else b2):
                return False
        elif isinstance(b1, float) and isinstance(b2, float) and ta1 != b1 + b2:
            return False
    elif not (k3 in absent and not finish):
        want = b1 if (is_err(b1) and k3 not in (1, 2)) else None
        if not is_err(ta1):
            return False
        if want is None and k3 in (1, 2) and ta1 not in expected_error(k3):
            return False
    # interception
    d1, d2, d3, h1 = val(P + 'D1'), val(P + 'D2'), val(P + 'D3'), val(P + 'H1')
    if d1 != (-1.0 if is_err(b1) else b1):
        return False
    if d2 != ('b', is_err(b2)):
        return False
    if d3 != ('s', 'bad' if is_err(ta1) else 'fine'):
        return False
    if is_err(ta1) != is_err(h1):
        return False
    return True


def faults_ok(a0: bool, a1: bool, a2: bool, a3: bool, b0: bool, b1: bool, b2: bool, b3: bool, finish: bool) -> bool:
    """
    pre: sel(a0, a1, a2, a3) < NF and sel(b0, b1, b2, b3) < NF
    post: _
    """
    return concrete(_run, F1, sel(a0, a1, a2, a3), sel(b0, b1, b2, b3), True if finish else False)

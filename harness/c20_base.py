# C20 harness (Engine A): the real digit strings of DEC2BIN/OCT/HEX and back.
# n = OFFSET + selector bits (bounded exhaustive windows at 0, at both
# two's-complement boundaries and just outside them).
from vlib.stubs import apply_common
apply_common()
from vlib.sel import sel
import formulas.functions.eng as E
from formulas.tokens.operand import XlError

BASE = __BASE__
OFFSET = __OFFSET__
K = {2: 9, 8: 29, 16: 39}[BASE]
FMT = {2: 'b', 8: 'o', 16: 'X'}[BASE]
NUM = E.Error.errors['#NUM!']


def base_window_ok(b0: bool, b1: bool, b2: bool, b3: bool, b4: bool, b5: bool, b6: bool, b7: bool, b8: bool) -> bool:
    """
    post: _
    """
    n = OFFSET + sel(b0, b1, b2, b3, b4, b5, b6, b7, b8)
    x = E._dec2x(n, None, BASE)
    if not (-(1 << K) <= n < (1 << K)):
        return x is NUM
    want = format(n if n >= 0 else n + (1 << (K + 1)), FMT)
    if x != want:
        return False
    # read back through the public argument parser as well
    return E._x2dec(E._parseX(x), BASE) == n and E._x2dec(x.lower(), BASE) == n

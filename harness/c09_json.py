# C09 harness (selectors; each path runs natively): JSON export / import.
from vlib.stubs import apply_common
apply_common()
from vlib.sel import sel, concrete
import json
import numpy as np
import schedula as sh
import formulas
from formulas.cell import Cell
import models as M
from spec.grammar import BIN_OPS, full, spell

P = M.P
T = __T__
ALPHA = ['=', '"', 'a', '1', ' ', '#']


def roundtrip(m):
    """(first export, second export, values before, values after) through real JSON text"""
    e1 = m.to_dict()
    s1 = M.norm(m.calculate())
    m2 = formulas.ExcelModel().from_dict(json.loads(json.dumps(e1)))
    e2 = m2.to_dict()
    s2 = M.norm(m2.calculate())
    m3 = formulas.ExcelModel().from_dict(json.loads(json.dumps(e2)))
    return e1, e2, s1, s2, m3.to_dict()


PREFIXES = ['', '#N/A', '#REF!', ' #DIV/0!', '#VALUE! x', '=A1', '#NULL!', 'TRUE']


def _text_constant(n, c0, c1, c2, p=0):
    # a TEXT cell (as the workbook reader creates it) whose content may look like a formula or an error value
    v = PREFIXES[p] + (ALPHA[c0] + ALPHA[c1] + ALPHA[c2])[:n]
    m = formulas.ExcelModel()
    c = Cell(P + 'A1', v, check_formula=False)
    c.add(m.dsp)
    m.cells[c.output] = c
    c2_ = Cell(P + 'B1', '=%sA1&"!"' % P).compile()
    c2_.add(m.dsp)
    m.cells[c2_.output] = c2_
    e1, e2, s1, s2, e3 = roundtrip(m)
    if e1 != e2 or e2 != e3:
        return False                     # repeated round trips never drift
    if s1 != s2:
        return False                     # identical values for every cell
    return s2[P + 'A1'] == [[('s', v)]] and s2[P + 'B1'] == [[('s', v + '!')]]


def text_constant_ok(n0: bool, n1: bool, a0: bool, a1: bool, a2: bool, b0: bool, b1: bool, b2: bool,
                     c0: bool, c1: bool, c2: bool, p0: bool, p1: bool, p2: bool) -> bool:
    """
    pre: sel(a0, a1, a2) < 6 and sel(b0, b1, b2) < 6 and sel(c0, c1, c2) < 6
    pre: sel(p0, p1, p2) == 0 or sel(n0, n1) <= 1
    pre: (sel(n0, n1) >= 3 or sel(c0, c1, c2) == 0) and (sel(n0, n1) >= 2 or sel(b0, b1, b2) == 0) and (sel(n0, n1) >= 1 or sel(a0, a1, a2) == 0)
    post: _
    """
    # text of length <= 3 over = " a 1 blank #, or one of 7 prefixes (error literals, a reference, a logical) plus <= 1 character
    return concrete(_text_constant, sel(n0, n1), sel(a0, a1, a2), sel(b0, b1, b2), sel(c0, c1, c2), sel(p0, p1, p2))


CONSTS = [5, -1.5, 0, True, False, 'x', '', ' a ', '7', 'TRUE', '#N/A', '#EMPTY', '=#DIV/0!', '=#REF!', 1e+20, 'a"b']


def _constant(i):
    v = CONSTS[i]
    m = formulas.ExcelModel().from_dict({P + 'A1': v, P + 'B1': '=IF(ISERROR(%sA1),"e",%sA1)' % (P, P)})
    e1, e2, s1, s2, e3 = roundtrip(m)
    return e1 == e2 == e3 and s1 == s2


def constant_ok(i0: bool, i1: bool, i2: bool, i3: bool) -> bool:
    """
    post: _
    """
    return concrete(_constant, sel(i0, i1, i2, i3))


SHEETS = ["'[b]S'!", "'[b]A-B'!", "'[b]MY SHEET'!", "'[b]A''B'!", "'[b]1A'!", "'[c d.xlsx]T.1'!", "'[b]A!B'!", "'[b]S'!"]


def _model(i, j, s):
    # whole models of the three families, one sheet renamed to a name that needs quoting
    pl = M.pool()
    d = M.template(T, pl[i], pl[j])
    sh_ = SHEETS[s]
    d = {k.replace(M.Q, sh_): (v.replace(M.Q, sh_) if isinstance(v, str) else v) for k, v in d.items()}
    d[sh_ + 'Z9'] = '=%sA1' % sh_
    m = formulas.ExcelModel().from_dict(d).finish(complete=False)
    e1, e2, s1, s2, e3 = roundtrip(m)
    # every entry written is exported; what the export adds are the blank cells the formulas read
    return e1 == e2 == e3 and s1 == s2 and set(d) <= set(e1) and all(e1[k] == '#EMPTY' for k in set(e1) - set(d))


def model_ok(i0: bool, i1: bool, i2: bool, j0: bool, j1: bool, j2: bool, s0: bool, s1: bool, s2: bool) -> bool:
    """
    post: _
    """
    return concrete(_model, sel(i0, i1, i2), sel(j0, j1, j2), sel(s0, s1, s2))


N = [('num', '1'), ('ref', 'A1'), ('str', 'a"",b'), ('num', '2.5')]
SHAPES = [
    lambda a, b, c: ('bin', c, ('bin', b, ('bin', a, N[0], N[1]), N[2]), N[3]),
    lambda a, b, c: ('bin', a, N[0], ('bin', b, N[1], ('bin', c, N[2], N[3]))),
    lambda a, b, c: ('bin', b, ('neg', '-', ('bin', a, N[0], N[1])), ('pct', ('bin', c, N[2], N[3]))),
    lambda a, b, c: ('fun', 'IF', [('bin', a, N[0], N[1]), ('empty',), ('fun', 'SUM', [('bin', b, N[1], N[3]), ('pct', N[0])])]),
    lambda a, b, c: ('bin', a, ('arr', [[N[0], N[3]], [N[2], ('neg', '-', N[0])]]), ('bin', c, N[1], N[0])),
]


def _expr(a, b, c, shape):
    # a formula's exported text parses back to the same formula (fixed point of parse o render)
    t = SHAPES[shape](BIN_OPS[a], BIN_OPS[b], BIN_OPS[c])
    text = formulas.Parser().ast('=' + spell(t))[1][-1].get_expr
    again = formulas.Parser().ast('=' + text)[1][-1].get_expr
    # parses back to itself, and IS the formula that was written (empty arguments kept, quotes doubled)
    return text == again and text == full(t).replace('A1', 'A1')


BP = __BP__       # pools of the second / third operator index (tier dependent)
CP = __CP__


def expr_fixed_point_ok(a0: bool, a1: bool, a2: bool, a3: bool, b0: bool, b1: bool, b2: bool, b3: bool,
                        c0: bool, c1: bool, c2: bool, c3: bool, s0: bool, s1: bool, s2: bool) -> bool:
    """
    pre: sel(a0, a1, a2, a3) < 12 and sel(b0, b1, b2, b3) < len(BP) and sel(c0, c1, c2, c3) < len(CP) and sel(s0, s1, s2) < 5
    pre: sel(a0, a1, a2, a3) % 4 == T
    post: _
    """
    return concrete(_expr, sel(a0, a1, a2, a3), BP[sel(b0, b1, b2, b3)], CP[sel(c0, c1, c2, c3)], sel(s0, s1, s2))

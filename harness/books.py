"""Two real workbooks described ONCE and rendered two ways (C03 files vs dictionary, C15):
as .xlsx files written with openpyxl, and as the dictionary `ExcelModel.from_dict` takes.

Formula texts use markers:  @ = a reference on the formula's own sheet, {DATA} / {CALC} =
a sheet of book1, {B2} = sheet DATA of book2 (a cross-workbook reference), {RATE} = the
defined name.  Everything here is concrete; callers choose constants by selectors."""
import openpyxl
from openpyxl.worksheet.formula import ArrayFormula
from openpyxl.workbook.defined_name import DefinedName

B1, B2 = 'book1.xlsx', 'book2.xlsx'
ODD = "O'B %"                      # a sheet title with an apostrophe and a percent sign


def q(title):
    return title.replace("'", "''")


def spec(a1, a2, whole='row', cross=True):
    """{book: {sheet: {cell or range: value / formula}}}, names"""
    data = {
        'A1': a1, 'A2': a2, 'A3': 2,
        'B1': '=@A1+@A2',
        'B3': '={CALC}A1*2',                       # other sheet, which refers back to this one
        'B4': '={RATE}*10',                        # defined name
        'C1:C2': '=@A1:A2*2',                      # array formula, two cells
        'D1': '=@C2+1',                            # a cell of the spilled array
        'E1': '=SUM(@C1:C2,@B1)',
        'F1': '=SUM(@B2:C2)',                      # a rectangle that overlaps the spill without its anchor
        'F2': '=SUM(@C2:D3)',
    }
    if whole == 'col':
        data['B2'] = '=SUM(@A:A)'                  # whole column (a million cells: few paths only)
    else:
        for i in range(10):
            data['%s5' % 'ABCDEFGHIJ'[i]] = i + 1
        data['B2'] = '=SUM(@5:5)+SUM(@A1:A3)'      # whole row
    calc = {
        'A1': '={DATA}B1+1',
        'A2': '=SUM({DATA}A1:A3)',
        'A3': '=IF({DATA}A1>1,{DATA}B4,0)',
        'A4': 5,
        'A5': '=@A4*2',
        'A6': '=@A5&{DATA}A2',
        'B1': '=MAX({DATA}2:2)',                   # whole row of the other sheet
    }
    calc['C3'] = '={OB}A2+1'                           # a sheet whose title needs escaping (apostrophe) and holds a %
    if cross:
        # cross-workbook references: book2 is loaded on demand when only book1 is given
        calc['C1'] = '=SUM({B2}A1:A2)+{B2}B2'
        calc['C2'] = '=IF(ISNUMBER({B2}A1),{B2}A1*2,"t")'
    d2 = {'A1': a2, 'A2': 1, 'B2': '=COUNT(@1:1)'}     # same sheet title as book1's, fewer used rows / columns
    if whole == 'col':
        d2['B1'] = '=SUM(@A:A)'
    else:
        d2['A5'], d2['B5'] = 3, a2
        d2['B1'] = '=SUM(@5:5)'
    if cross:
        # ... and back: book1 is loaded on demand when only book2 is given; its sheet of the same title is larger,
        # and the second rectangle overlaps the array formula's spill without its anchor
        d2['C1'] = '=SUM({B1D}A5:J5)' if whole != 'col' else '=SUM({B1D}A1:A3)'
        d2['C2'] = '=SUM({B1D}B2:C2)'
    d2['C3'] = '={TAX}*3'                              # book2 has a defined name of its own ...
    if cross:
        calc['C4'] = '={B2}C3+1'                       # ... reached from book1 through a cross-workbook reference
    return {B1: {'DATA': data, 'CALC': calc, ODD: {'A1': a2, 'A2': '=@A1*2'}}, B2: {'DATA': d2}}, {B1: {'RATE': 'DATA!$A$3'}, B2: {'TAX': 'DATA!$A$2'}}


def _file_formula(f):
    return f.replace('@', '').replace('{DATA}', 'DATA!').replace('{CALC}', 'CALC!').replace('{RATE}', 'RATE').replace('{TAX}', 'TAX') \
        .replace('{B2}', "'[%s]DATA'!" % B2).replace('{B1D}', "'[%s]DATA'!" % B1).replace('{OB}', "'%s'!" % q(ODD))


def write_files(a1, a2, whole='row', cross=True):
    """write book1.xlsx and book2.xlsx into the current directory"""
    books, names = spec(a1, a2, whole, cross)
    for book, sheets in books.items():
        wb = openpyxl.Workbook()
        first = True
        for title, cells in sheets.items():
            ws = wb.active if first else wb.create_sheet(title)
            ws.title, first = title, False
            for ref, v in cells.items():
                if isinstance(v, str) and v.startswith('='):
                    v = _file_formula(v)
                    if ':' in ref:
                        ws[ref.split(':')[0]] = ArrayFormula(ref, v)
                        continue
                ws[ref] = v
        for n, target in names.get(book, {}).items():
            wb.defined_names[n] = DefinedName(n, attr_text=target)
        wb.save(book)


def as_dict(a1, a2, whole='row', cross=True):
    """the same two workbooks as a from_dict() dictionary (every reference fully qualified)"""
    books, names = spec(a1, a2, whole, cross)
    out = {}
    for book, sheets in books.items():
        for title, cells in sheets.items():
            own = "'[%s]%s'!" % (book, q(title))
            for ref, v in cells.items():
                if isinstance(v, str) and v.startswith('='):
                    v = v.replace('@', own).replace('{DATA}', "'[%s]DATA'!" % B1).replace('{CALC}', "'[%s]CALC'!" % B1) \
                        .replace('{RATE}', "'[%s]'!RATE" % B1).replace('{TAX}', "'[%s]'!TAX" % B2).replace('{B2}', "'[%s]DATA'!" % B2).replace('{B1D}', "'[%s]DATA'!" % B1) \
                        .replace('{OB}', "'[%s]%s'!" % (B1, q(ODD)))
                out[own + ref] = v
        for n, target in names.get(book, {}).items():
            sheet, ref = target.split('!')
            out["'[%s]'!%s" % (book, n)] = "='[%s]%s'!%s" % (book, sheet, ref.replace('$', ''))
    return out


def formula_keys(a1=0, a2=0, whole='row', cross=True):
    books, _ = spec(a1, a2, whole, cross)
    return ["'[%s]%s'!%s" % (b, q(t), r) for b, sh_ in books.items() for t, cells in sh_.items() for r, v in cells.items()
            if isinstance(v, str) and v.startswith('=')]

"""C20 obligations for Engine B (run via vlib.symrun, one process each)."""
import math
import z3
from vlib import symtrace as st
from vlib.symrun import summarize
from vlib.stubs import apply_common

apply_common()
import formulas.functions.date as D
import formulas.functions.eng as E
from formulas.tokens.operand import XlError
from formulas.functions import Error, FoundError

NUM = Error.errors['#NUM!']


# ---------------------------------------------------------------- calendar ----

def _with_shim(fn):
    from vlib import dateshim
    st.MODE = 'lia'
    saved = dateshim.install(D)
    D.int, D.float = st.sym_int, st.sym_float
    try:
        return fn(dateshim)
    finally:
        dateshim.uninstall(D, saved)


def shim_injective():
    """the shim's inverse is well defined: two valid dates with one ordinal are equal"""
    from vlib import dateshim as ds
    y1, m1, d1, y2, m2, d2 = z3.Ints('y1 m1 d1 y2 m2 d2')
    t0 = __import__('time').time()
    r, model, dt, be = st.solve([ds.valid(y1, m1, d1), ds.valid(y2, m2, d2),
                                 ds.ordinal(y1, m1, d1) == ds.ordinal(y2, m2, d2),
                                 z3.Or(y1 != y2, m1 != m2, d1 != d2)], 300)
    return {'status': 'discharged' if r == 'unsat' else 'inconclusive', 'paths': 1, 'queries': 1,
            'detail': 'z3 %s in %.1fs' % (r, dt)}


def lemma_floor_div(k=12):
    """QF_BVFP: for every 32-bit a, q = floor(fl(a / k)) satisfies k*q <= a < k*q + k,
    i.e. q == a // k (used by SRatio.__floor__).  All products are below 2^53, hence
    exact in double arithmetic, so the statement is written without integer division."""
    import time
    a = z3.BitVec('a', 32)
    fa = z3.fpSignedToFP(st.RNE, a, st.F64)
    fk = z3.FPVal(float(k), st.F64)
    q = z3.fpRoundToIntegral(z3.RTN(), z3.fpDiv(st.RNE, fa, fk))
    kq = z3.fpMul(st.RNE, q, fk)
    ok = z3.And(z3.fpLEQ(kq, fa), z3.fpLT(fa, z3.fpAdd(st.RNE, kq, fk)))
    s = z3.Solver()
    s.set('timeout', 300000)
    s.add(z3.Not(ok))
    t0 = time.time()
    r = st.cvc5_check(s, 300)
    be = 'cvc5'
    if r not in ('sat', 'unsat'):
        r, be = str(s.check()), 'z3'
    return {'status': 'discharged' if r == 'unsat' else ('inconclusive'),
            'paths': 1, 'queries': 1, 'detail': '%s: %s in %.1fs' % (be, r, time.time() - t0)}


def int2date_xdate(lo=0, hi=2958465):
    """for every serial: _int2date gives the date Excel shows and DATE of those parts
    returns the serial"""
    def body(ds):
        n = z3.Int('n')
        ord0 = D.DATE_ZERO.o      # ordinal of 1899-12-31

        def fn():
            y, m, d = D._int2date(st.SInt(n))
            back = D.xdate(y, m, d)
            return y, m, d, back

        def post(out):
            if out[0] == 'exc':
                return False
            y, m, d, back = out[1]
            yt, mt, dt = (st.iv(v) for v in (y, m, d))
            spec = z3.If(n == 0, z3.And(yt == 1900, mt == 1, dt == 0),
                   z3.If(n == 60, z3.And(yt == 1900, mt == 2, dt == 29),
                   z3.If(n < 60, z3.And(ds.valid(yt, mt, dt), ds.ordinal(yt, mt, dt) == ord0 + n),
                         z3.And(ds.valid(yt, mt, dt), ds.ordinal(yt, mt, dt) == ord0 + n - 1))))
            return z3.And(spec, st.iv(back) == n)
        res = st.explore(fn, post, [n >= lo, n <= hi], timeout_s=120)
        return summarize(res, {'n': n})
    return _with_shim(body)


def int2date_out_of_range():
    def body(ds):
        n = z3.Int('n')

        def fn():
            return D._int2date(st.SInt(n))

        def post(out):
            return out[0] == 'exc' and isinstance(out[1], FoundError) and out[1].err is NUM
        res = st.explore(fn, post, [z3.Or(n < 0, n > 2958465), n > -10 ** 7, n < 10 ** 8], timeout_s=60)
        return summarize(res, {'n': n})
    return _with_shim(body)


def date_normalisation(mlo=-24, mhi=36, dlo=-60, dhi=400, ylo=1900, yhi=9999, known_feb1900=True):
    """DATE(y, m, d) with month / day outside their ranges rolls over by Excel's calendar
    arithmetic: serial of day 1 of the normalised month, plus d - 1 (serials include the
    fictitious 29 Feb 1900).  #NUM! exactly when that serial is outside 0..2958465."""
    def body(ds):
        y, m, d = z3.Ints('y m d')
        ord0 = D.DATE_ZERO.o
        tot = y * 12 + (m - 1)
        yy, mm = tot / 12, tot % 12 + 1
        s1 = ds.ordinal(yy, mm, z3.IntVal(1)) - ord0 + z3.If(z3.Or(yy > 1900, z3.And(yy == 1900, mm >= 3)), 1, 0)
        spec = s1 + d - 1
        inrange = z3.And(spec >= 0, spec <= 2958465)
        # recorded finding C20-date-rollover-feb1900: rolling over INTO or ACROSS the
        # fictitious day (serial 60) is off by one
        feb = z3.Or(z3.And(z3.Or(yy < 1900, z3.And(yy == 1900, mm <= 2)), spec >= 60), z3.And(spec == 60, z3.Not(z3.And(yy == 1900, mm == 2))),
                    z3.And(z3.Or(yy > 1900, z3.And(yy == 1900, mm >= 3)), spec < 60, False))
        assume = [y >= ylo, y <= yhi, m >= mlo, m <= mhi, d >= dlo, d <= dhi]
        if known_feb1900:
            assume.append(z3.Not(feb))

        def fn():
            return D.xdate(st.SInt(y), st.SInt(m), st.SInt(d))

        def post(out):
            if out[0] == 'exc':
                return z3.And(isinstance(out[1], FoundError) and out[1].err is NUM, z3.Not(inrange))
            return z3.And(inrange, st.iv(out[1]) == spec)
        res = st.explore(fn, post, assume, timeout_s=120, max_paths=4000)
        return summarize(res, {'y': y, 'm': m, 'd': d})
    return _with_shim(body)


def weekday_step(mode=1):
    """WEEKDAY advances by one per day (cyclically) in numbering mode `mode`, stays in
    its range, and serial 1 is a Sunday (Excel's 1900 calendar)"""
    st.MODE = 'lia'
    D.int, D.float = st.sym_int, st.sym_float
    n = z3.Int('n')
    lo, hi = {1: (1, 7), 2: (1, 7), 3: (0, 6)}.get(mode, (1, 7))

    def fn():
        return D.xweekday(st.SInt(n), mode), D.xweekday(st.SInt(n + 1), mode), D.xweekday(st.SInt(z3.IntVal(1)), mode)

    def post(out):
        if out[0] == 'exc':
            return False
        a, b, first = out[1]
        if isinstance(a, XlError) or isinstance(b, XlError) or isinstance(first, XlError):
            return False
        a, b, first = st.iv(a), st.iv(b), st.iv(first)
        # which weekday number does Sunday carry in this mode?
        sunday = {1: 1, 2: 7, 3: 6, 11: 7, 12: 6, 13: 5, 14: 4, 15: 3, 16: 2, 17: 1}[mode]
        step = z3.If(a == hi, b == lo, b == a + 1)
        return z3.And(a >= lo, a <= hi, b >= lo, b <= hi, step, first == sunday)
    res = st.explore(fn, post, [n >= 0, n < 2958465], timeout_s=60)
    return summarize(res, {'n': n})


def weekday_errors():
    st.MODE = 'lia'
    D.int, D.float = st.sym_int, st.sym_float
    n, k = z3.Ints('n k')

    def fn():
        return D.xweekday(st.SInt(n), st.SInt(k))

    def post(out):
        bad = z3.Or(n < 0, n > 2958465, z3.Not(z3.Or(z3.And(k >= 1, k <= 3), z3.And(k >= 11, k <= 17))))
        if out[0] == 'exc':
            return False
        return bad == z3.BoolVal(out[1] is NUM)
    res = st.explore(fn, post, [n >= -5, n <= 2958470, k >= -2, k <= 20], timeout_s=60)
    return summarize(res, {'n': n, 'k': k})


# -------------------------------------------------------------------- time ----

def time_roundtrip(hour=0):
    """HOUR/MINUTE/SECOND invert TIME for every second of hour `hour` (IEEE doubles)"""
    st.MODE = 'bv'
    m, s = z3.BitVec('m', 64), z3.BitVec('s', 64)
    D.float, D.int, D.math = st.sym_float, st.sym_int, st.SMath()

    def fn():
        v = D.xtime(hour, st.SInt(m), st.SInt(s))
        return D._n2time(v)

    def post(out):
        if out[0] == 'exc':
            return False
        hh, mm, ss = out[1]
        return z3.And(st.iv(hh) == hour, st.iv(mm) == m, st.iv(ss) == s)
    res = st.explore(fn, post, [m >= 0, m < 60, s >= 0, s < 60], timeout_s=400, use_cvc5=True)
    return summarize(res, {'m': m, 's': s})


# ---------------------------------------------------------- base conversion ----

class Num:
    """abstract numeral: what bin()/oct()/hex() return and int(., base) reads.
    Python's own builtins are trusted to be mutually inverse; the repository's
    mask arithmetic is what is decided."""

    def __init__(self, v, base, prefix=False, width=None):
        if isinstance(v, int):
            v = st.SInt(z3.BitVecVal(v, 64))
        self.v, self.base, self.prefix, self.width = v, base, prefix, width

    def __getitem__(self, sl):
        assert sl == slice(2, None) and self.prefix
        return Num(self.v, self.base)

    def upper(self):
        return self

    def __str__(self):
        # the abstract numeral IS a well-formed digit string of its base (that is what bin / oct / hex produce);
        # code that validates the characters of str(x) sees a valid representative.  Texts that are not digit
        # strings are decided concretely in harness/c20_text.py
        return '0'

    def ndigits(self):
        """number of digits as an SInt (value is a non-negative SInt below base**10)"""
        bits = {2: 1, 8: 3, 16: 4}[self.base]
        t = z3.BitVecVal(1, 64)
        for k in range(1, 11):
            t = z3.If(z3.UGE(self.v.t, z3.BitVecVal(1 << (bits * k), 64)), z3.BitVecVal(k + 1, 64), t)
        return st.SInt(t)

    def __len__(self):
        raise TypeError('len() of abstract numeral must go through module-level len shadow')

    def zfill(self, p):
        return Num(self.v, self.base, width=p)


def _install_eng():
    st.MODE = 'bv'
    E._xfunc = {2: lambda n: Num(n, 2, True), 8: lambda n: Num(n, 8, True), 16: lambda n: Num(n, 16, True)}

    def _int(x, base=None):
        if isinstance(x, Num):
            assert base == x.base
            return x.v
        if isinstance(x, (st.SInt, st.SFloat)):
            return x.__int__()
        return int(x) if base is None else int(x, base)

    def _len(x):
        return x.ndigits() if isinstance(x, Num) else len(x)
    E.int, E.len = _int, _len


def base_roundtrip(base=16):
    """x2dec(dec2x(n)) == n on the whole domain, #NUM! outside"""
    _install_eng()
    k = {2: 9, 8: 29, 16: 39}[base]
    n = z3.BitVec('n', 64)

    def fn():
        x = E._dec2x(st.SInt(n), None, base)
        if isinstance(x, XlError):
            return x
        assert isinstance(x, Num) and x.base == base
        return x, E._x2dec(x, base)

    def post(out):
        if out[0] == 'exc':
            return False
        inside = z3.And(n >= -(1 << k), n < (1 << k))
        if out[1] is NUM:
            return z3.Not(inside)
        if isinstance(out[1], XlError):
            return False
        x, back = out[1]
        digits10 = z3.And(x.v.t >= 0, x.v.t < (1 << (k + 1)))        # fits 10 digits
        twos = z3.If(n < 0, x.v.t == n + (1 << (k + 1)), x.v.t == n)   # two's complement pattern
        return z3.And(inside, st.iv(back) == n, digits10, twos)
    res = st.explore(fn, post, [n > -(1 << 45), n < (1 << 45)], timeout_s=120)
    return summarize(res, {'n': n})


def base_roundtrip_inv(base=16):
    """dec2x(x2dec(u)) == u for every 10-digit pattern u"""
    _install_eng()
    k = {2: 9, 8: 29, 16: 39}[base]
    u = z3.BitVec('u', 64)

    def fn():
        d = E._x2dec(Num(st.SInt(u), base), base)
        return d, E._dec2x(d, None, base)

    def post(out):
        if out[0] == 'exc':
            return False
        d, x = out[1]
        if isinstance(d, XlError) or isinstance(x, XlError):
            return False
        dv = st.iv(d)
        return z3.And(x.v.t == u, dv >= -(1 << k), dv < (1 << k), z3.If(u >= (1 << k), dv == u - (1 << (k + 1)), dv == u))
    res = st.explore(fn, post, [u >= 0, u < (1 << (k + 1))], timeout_s=120)
    return summarize(res, {'u': u})


def base_places(base=2):
    """places: the result is padded to `places` digits, never truncated; too few places -> #NUM!"""
    _install_eng()
    k = {2: 9, 8: 29, 16: 39}[base]
    n, p = z3.BitVec('n', 64), z3.BitVec('p', 64)

    def fn():
        return E._dec2x(st.SInt(n), st.SInt(p), base)

    def post(out):
        if out[0] == 'exc':
            return False
        x = out[1]
        nd = Num(st.SInt(n), base).ndigits().t
        if x is NUM:
            return p < nd
        if isinstance(x, XlError):
            return False
        return z3.And(x.v.t == n, p >= nd, st.iv(x.width) == p)
    res = st.explore(fn, post, [n >= 0, n < (1 << k), p >= 1, p <= 10], timeout_s=120)
    return summarize(res, {'n': n, 'p': p})

# C06 full-grid harness: every rectangle of the 16384 x 1048576 grid, one
# symbolic witness cell (c, r) instead of a loop over cells.
from vlib.stubs import apply_common
apply_common()
import formulas.ranges as R
from formulas.errors import InvalidRangeError

MAXC, MAXR = R.maxcol, R.maxrow
R.str = lambda v: v          # row numbers carried as ints (int(str(n)) == n)


def _fmt(outputs, **kw):
    kw = dict(kw)
    kw['name'] = (kw.get('sheet_id'), kw['n1'], kw['r1'], kw['n2'], kw['r2'])
    return kw


R.Ranges.format_range = staticmethod(_fmt)
R.Ranges.__repr__ = lambda self: '<Ranges>'   # message formatting only


def mk(n1, n2, r1, r2, sheet='S'):
    return {'sheet_id': sheet, 'n1': n1, 'n2': n2, 'r1': r1, 'r2': r2,
            'name': (sheet, n1, r1, n2, r2)}


def inside(z, c, r):
    return z['n1'] <= c <= z['n2'] and int(z['r1']) <= r <= int(z['r2'])


def intersect_ok(a1: int, a2: int, b1: int, b2: int, c1: int, c2: int, d1: int, d2: int, c: int, r: int) -> bool:
    """
    pre: 1 <= a1 <= a2 <= MAXC and 1 <= b1 <= b2 <= MAXR
    pre: 1 <= c1 <= c2 <= MAXC and 1 <= d1 <= d2 <= MAXR
    pre: 1 <= c <= MAXC and 1 <= r <= MAXR
    post: _
    """
    x, y = mk(a1, a2, b1, b2), mk(c1, c2, d1, d2)
    z = R._intersect(x, y)
    exp = inside(x, c, r) and inside(y, c, r)
    got = bool(z) and inside(z, c, r)
    wellformed = (not z) or (z['n1'] <= z['n2'] and z['r1'] <= z['r2'] and z['sheet_id'] == 'S')
    return exp == got and wellformed


def split_ok(a1: int, a2: int, b1: int, b2: int, c1: int, c2: int, d1: int, d2: int, c: int, r: int) -> bool:
    """
    pre: 1 <= a1 <= a2 <= MAXC and 1 <= b1 <= b2 <= MAXR
    pre: 1 <= c1 <= c2 <= MAXC and 1 <= d1 <= d2 <= MAXR
    pre: 1 <= c <= MAXC and 1 <= r <= MAXR
    post: _
    """
    base, rng = mk(a1, a2, b1, b2), mk(c1, c2, d1, d2)
    i = {}
    parts = R._split(base, rng, intersect=i, format_range=_fmt)
    n = sum(1 for p in parts if inside(p, c, r))
    exp = 1 if (inside(rng, c, r) and not inside(base, c, r)) else 0
    iexp = inside(rng, c, r) and inside(base, c, r)
    igot = bool(i) and inside(i, c, r)
    return n == exp and iexp == igot and all(p['n1'] <= p['n2'] and p['r1'] <= p['r2'] for p in parts)


def add_ok(a1: int, a2: int, b1: int, b2: int, c1: int, c2: int, d1: int, d2: int, c: int, r: int) -> bool:
    """
    pre: 1 <= a1 <= a2 <= MAXC and 1 <= b1 <= b2 <= MAXR
    pre: 1 <= c1 <= c2 <= MAXC and 1 <= d1 <= d2 <= MAXR
    pre: 1 <= c <= MAXC and 1 <= r <= MAXR
    post: _
    """
    x, y = R.Ranges((mk(a1, a2, b1, b2),)), R.Ranges((mk(c1, c2, d1, d2),))
    z = x + y
    exp = min(a1, c1) <= c <= max(a2, c2) and min(b1, d1) <= r <= max(b2, d2)
    return len(z.ranges) == 1 and inside(z.ranges[0], c, r) == exp


def add3_ok(a1: int, a2: int, b1: int, b2: int, c1: int, c2: int, d1: int, d2: int, e1: int, e2: int, f1: int, f2: int, c: int, r: int) -> bool:
    """
    pre: 1 <= a1 <= a2 <= MAXC and 1 <= b1 <= b2 <= MAXR
    pre: 1 <= c1 <= c2 <= MAXC and 1 <= d1 <= d2 <= MAXR
    pre: 1 <= e1 <= e2 <= MAXC and 1 <= f1 <= f2 <= MAXR
    pre: 1 <= c <= MAXC and 1 <= r <= MAXR
    post: _
    """
    # (union of two areas) : third  -> bounding rectangle of all three
    x = R.Ranges((mk(a1, a2, b1, b2), mk(c1, c2, d1, d2)))
    y = R.Ranges((mk(e1, e2, f1, f2),))
    z = x + y
    exp = min(a1, c1, e1) <= c <= max(a2, c2, e2) and min(b1, d1, f1) <= r <= max(b2, d2, f2)
    return len(z.ranges) == 1 and inside(z.ranges[0], c, r) == exp


def and_ok(a1: int, a2: int, b1: int, b2: int, c1: int, c2: int, d1: int, d2: int, c: int, r: int) -> bool:
    """
    pre: 1 <= a1 <= a2 <= MAXC and 1 <= b1 <= b2 <= MAXR
    pre: 1 <= c1 <= c2 <= MAXC and 1 <= d1 <= d2 <= MAXR
    pre: 1 <= c <= MAXC and 1 <= r <= MAXR
    post: _
    """
    x, y = R.Ranges((mk(a1, a2, b1, b2),)), R.Ranges((mk(c1, c2, d1, d2),))
    z = x & y
    n = sum(1 for p in z.ranges if inside(p, c, r))
    exp = 1 if inside(x.ranges[0], c, r) and inside(y.ranges[0], c, r) else 0
    return n == exp and len(z.ranges) <= 1


def or_ok(a1: int, a2: int, b1: int, b2: int, c1: int, c2: int, d1: int, d2: int, c: int, r: int) -> bool:
    """
    pre: 1 <= a1 <= a2 <= MAXC and 1 <= b1 <= b2 <= MAXR
    pre: 1 <= c1 <= c2 <= MAXC and 1 <= d1 <= d2 <= MAXR
    pre: 1 <= c <= MAXC and 1 <= r <= MAXR
    post: _
    """
    # union keeps every operand area in order, overlaps count twice
    x, y = R.Ranges((mk(a1, a2, b1, b2),)), R.Ranges((mk(c1, c2, d1, d2),))
    z = x | y
    n = sum(1 for p in z.ranges if inside(p, c, r))
    exp = int(inside(x.ranges[0], c, r)) + int(inside(y.ranges[0], c, r))
    return n == exp and z.ranges == (x.ranges[0], y.ranges[0]) and z.is_set


def merge_raw_ok(n: int, b1: int, b2: int, d1: int, d2: int, r: int) -> bool:
    """
    pre: 1 <= n <= MAXC and 1 <= b1 <= b2 <= MAXR and 1 <= d1 <= d2 <= MAXR
    pre: b1 <= d1
    pre: 1 <= r <= MAXR
    post: _
    """
    # one step of the row merge inside Ranges._merge: base (possibly already
    # extended by earlier steps) starts no later than rng in the sort order
    # (n1, r1, -n2, -r2); both are strips of the same column.
    base, rng = mk(n, n, b1, b2), mk(n, n, d1, d2)
    before = inside(base, n, r)
    merged = R._merge_raw_update(base, rng)
    if merged:
        # base must now cover exactly base U rng, and they must have touched/overlapped
        return inside(base, n, r) == (before or inside(rng, n, r)) and d1 <= b2 + 1
    return inside(base, n, r) == before and d1 > b2 + 1


def merge_col_ok(a1: int, a2: int, c1: int, c2: int, b1: int, b2: int, d1: int, d2: int, c: int, r: int) -> bool:
    """
    pre: 1 <= a1 <= a2 <= MAXC and 1 <= b1 <= b2 <= MAXR
    pre: 1 <= c1 <= c2 <= MAXC and 1 <= d1 <= d2 <= MAXR
    pre: 1 <= c <= MAXC and 1 <= r <= MAXR
    post: _
    """
    base, rng = mk(a1, a2, b1, b2), mk(c1, c2, d1, d2)
    before = inside(base, c, r)
    merged = R._merge_col_update(base, rng)
    if merged:
        # only exact side-by-side neighbours may be fused; no cell lost or added
        return inside(base, c, r) == (before or inside(rng, c, r)) and a2 + 1 == c1 and (b1, b2) == (d1, d2)
    return inside(base, c, r) == before


def sheet_mismatch_ok(a1: int, a2: int, b1: int, b2: int, c1: int, c2: int, d1: int, d2: int) -> bool:
    """
    pre: 1 <= a1 <= a2 <= MAXC and 1 <= b1 <= b2 <= MAXR
    pre: 1 <= c1 <= c2 <= MAXC and 1 <= d1 <= d2 <= MAXR
    post: _
    """
    # operands on different sheets never share a cell
    x, y = mk(a1, a2, b1, b2, 'S'), mk(c1, c2, d1, d2, 'T')
    ok = not R._intersect(x, y) and R._split(x, y, format_range=_fmt) == (y,)
    ok = ok and not R._merge_raw_update(dict(x), y) and not R._merge_col_update(dict(x), y)
    ok = ok and len((R.Ranges((x,)) & R.Ranges((y,))).ranges) == 0
    z = R.Ranges((y,)) - R.Ranges((x,))
    return ok and z.ranges == (y,)


def sheet_mismatch_add_ok(s: str, t: str) -> bool:
    """
    pre: len(s) <= 2 and len(t) <= 2
    post: _
    """
    # the range operator across two sheets is an error; on one sheet it is not.
    # (coordinates concrete here: CrossHair realises whatever is formatted into
    # the error message; the coordinates are symbolic in add_ok/add3_ok)
    x, y = mk(1, 1, 1, 1, s), mk(2, 2, 2, 2, t)
    try:
        z = R.Ranges((x,)) + R.Ranges((y,))
    except InvalidRangeError:
        return s != t
    return s == t and len(z.ranges) == 1 and z.ranges[0]['sheet_id'] == s

# C20 harness: ROMAN/ARABIC round trip.  n and form are selectors (string
# repetition by a symbolic count concretises), bounded per generated copy.
from vlib.stubs import apply_common
apply_common()
import formulas.functions.math as M

LO, HI = __LO__, __HI__


def sel(*bits):
    """concrete integer chosen by branching on boolean selectors"""
    v = 0
    for k, b in enumerate(bits):
        if b:
            v += 1 << k
    return v


def roman_roundtrip_ok(b0: bool, b1: bool, b2: bool, b3: bool, b4: bool, b5: bool, f0: bool, f1: bool, f2: bool) -> bool:
    """
    pre: LO + sel(b0, b1, b2, b3, b4, b5) <= HI
    pre: sel(f0, f1, f2) <= 4
    post: _
    """
    # n and form are spelled by boolean selectors (a clean binary decision tree)
    n = LO + sel(b0, b1, b2, b3, b4, b5)
    form = sel(f0, f1, f2)
    r = M.xroman(n, form)
    return isinstance(r, str) and all(ch in 'MDCLXVI' for ch in r) and M.xarabic(r) == n


def roman_domain_ok(n: int, form: int) -> bool:
    """
    pre: -3 <= n <= 4003 and -2 <= form <= 6
    pre: not (0 <= n < 4000 and 0 <= form <= 4)
    post: _
    """
    # outside 0..3999 / 0..4 the kernel refuses (the public wrapper maps ValueError to #VALUE!)
    try:
        M.xroman(n, form)
    except ValueError:
        return True
    return False

"""C02 obligations for Engine B: the real `safe_eval` closures of the arithmetic
operators (error check, coercion, operator lambda, NaN -> #NUM!, exception
mapping) run on IEEE-double proxies against the statement."""
import z3
import schedula as sh
from vlib import symtrace as st
from vlib.symrun import summarize
from vlib.stubs import apply_common

apply_common()
import numpy as np
import formulas.functions as F
from formulas.functions.operators import OPERATORS
from formulas.tokens.operand import XlError

ERR = F.Error.errors
DIV, NUM, VALUE = ERR['#DIV/0!'], ERR['#NUM!'], ERR['#VALUE!']
ERRORS = [ERR[k] for k in ('#NULL!', '#DIV/0!', '#VALUE!', '#REF!', '#NUM!', '#NAME?', '#N/A')]

# pool of concrete operand kinds (the statement's cross product); 'sym' is the symbolic double
POOL = {
    'zero': 0.0, 'one': 1.0, 'mone': -1.0, 'half': 0.5, 'big': 1e200, 'tiny': 1e-200, 'int': 7,
    'true': True, 'false': False, 'numtext': '7', 'padtext': ' 2.5 ', 'exptext': '1e3', 'text': 'abc', 'emptytext': '',
    'blank': sh.EMPTY,
    'e_null': ERRORS[0], 'e_div': ERRORS[1], 'e_value': ERRORS[2], 'e_ref': ERRORS[3], 'e_num': ERRORS[4],
    'e_name': ERRORS[5], 'e_na': ERRORS[6],
}


def closure_of(f, name):
    w = f
    while hasattr(w, '__wrapped__'):
        w = w.__wrapped__
        if getattr(w, '__closure__', None):
            for c, n in zip(w.__closure__, w.__code__.co_freevars):
                if n == name:
                    return c.cell_contents
    raise LookupError(name)


def install():
    st.MODE = 'bv'
    st.install_numpy_stubs()
    import sys
    for name, mod in list(sys.modules.items()):      # every functions module that says `float(...)`
        if name.startswith('formulas.functions') and mod is not None and 'float' not in vars(mod):
            mod.float = st.sym_float
    F.float = st.sym_float


def coerce(v):
    """statement: numeric text, logicals and blanks are coerced for arithmetic, other text
    gives #VALUE!.  -> ('num', fp term) | ('err', error) | ('value',)"""
    if isinstance(v, XlError):
        return ('err', v)
    if isinstance(v, st.SFloat):
        return ('num', v.t)
    if v is sh.EMPTY:
        return ('num', z3.FPVal(0.0, st.F64))
    if isinstance(v, bool):
        return ('num', z3.FPVal(1.0 if v else 0.0, st.F64))
    if isinstance(v, (int, float)):
        return ('num', z3.FPVal(float(v), st.F64))
    if isinstance(v, str):
        try:
            x = float(v)
        except ValueError:
            return ('value',)
        return ('num', z3.FPVal(x, st.F64))
    raise TypeError(v)


def expected(op, vals, out):
    """z3 Bool: `out` is what the statement prescribes for op(vals)"""
    if out[0] == 'exc':
        return z3.BoolVal(False)                      # never an exception
    r = out[1]
    cs = [coerce(v) for v in vals]
    for c in cs:                                       # the left-most error operand, unchanged
        if c[0] == 'err':
            return z3.BoolVal(r is c[1])
    if op == 'U+':
        # unary plus returns its operand as it is (no coercion)
        v = vals[0]
        if isinstance(v, st.SFloat):
            return z3.And(isinstance(r, st.SFloat) and True, st.fin(v.t), r.t == v.t) if isinstance(r, st.SFloat) else z3.BoolVal(False)
        if v is sh.EMPTY:
            return z3.BoolVal(type(r) in (int, float) and r == 0)       # a blank reads as 0
        return z3.BoolVal(r is v or (type(r) is type(v) and r == v))
    if any(c[0] == 'value' for c in cs):
        return z3.BoolVal(r is VALUE)
    a = cs[0][1]
    b = cs[1][1] if len(cs) > 1 else None
    zero_div = z3.BoolVal(False)
    if op == '+':
        ideal = z3.fpAdd(st.RNE, a, b)
    elif op == '-':
        ideal = z3.fpSub(st.RNE, a, b)
    elif op == '*':
        ideal = z3.fpMul(st.RNE, a, b)
    elif op == '/':
        ideal = z3.fpDiv(st.RNE, a, b)
        zero_div = z3.fpIsZero(b)
    elif op == '%':
        ideal = z3.fpDiv(st.RNE, a, z3.FPVal(100.0, st.F64))
    elif op == 'U-':
        ideal = z3.fpNeg(a)
    else:
        raise ValueError(op)
    if r is DIV:
        return zero_div
    if r is NUM:
        return z3.And(z3.Not(zero_div), z3.Not(st.fin(ideal)))
    if isinstance(r, XlError):
        return z3.BoolVal(False)
    if isinstance(r, st.SFloat):
        rt = r.t
    elif isinstance(r, (int, float)) and not isinstance(r, bool):
        rt = z3.FPVal(float(r), st.F64)
    else:
        return z3.BoolVal(False)                      # foreign object
    return z3.And(z3.Not(zero_div), st.fin(ideal), z3.fpEQ(rt, ideal), st.fin(rt))


def arith(op, kinds=None, both_symbolic=True):
    """one operator, symbolic double against every pool kind (both positions) and against a
    second symbolic double"""
    install()
    se = closure_of(OPERATORS[op], 'safe_eval')
    unary = op in ('U-', 'U+', '%')
    x, y = z3.FP('x', st.F64), z3.FP('y', st.F64)
    total = {'paths': 0, 'queries': 0, 'solver_seconds': 0.0}
    combos = []
    names = list(POOL) if kinds is None else kinds
    if unary:
        combos = [(('sym',),)] + [((k,),) for k in names]
    else:
        combos = [(('sym', k),) for k in names] + [((k, 'sym'),) for k in names]
        if both_symbolic:
            combos.append((('sym', 'sym2'),))
        combos += [((k1, k2),) for k1 in ('zero', 'numtext', 'text', 'blank', 'true', 'e_ref', 'e_na', 'big')
                   for k2 in ('zero', 'padtext', 'emptytext', 'blank', 'false', 'e_div', 'e_name', 'big')]
    worst = None
    for (kk,) in combos:
        def mk(k):
            if k == 'sym':
                return st.SFloat(x)
            if k == 'sym2':
                return st.SFloat(y)
            return POOL[k]
        vals = [F.replace_empty(mk(k)) for k in kk]       # the wrapper's args_parser
        raw = [mk(k) for k in kk]

        def fn():
            return se(*vals)

        def post(out, raw=raw):
            return expected(op, raw, out)
        res = st.explore(fn, post, [st.fin(x), st.fin(y)], timeout_s=120, use_cvc5=False)
        s = summarize(res, {'x': x, 'y': y})
        total['paths'] += s['paths']
        total['queries'] += s['queries']
        total['solver_seconds'] += s.get('solver_seconds', 0)
        if s['status'] != 'discharged':
            s['cex'] = dict(s.get('cex', {}), kinds=list(kk), op=op)
            s['detail'] = 'operands %s: %s' % (kk, s.get('detail', ''))
            if worst is None or s['status'] == 'counterexample':
                worst = s
            if s['status'] == 'counterexample':
                break
    if worst:
        worst.update(paths=total['paths'], queries=total['queries'])
        return worst
    return dict(total, status='discharged', detail='%d operand-kind combinations, %d paths, every query unsat' % (
        len(combos), total['paths']))


def public_vs_kernel():
    """translator validation: the public registered operator (np.vectorize wrapper) and the
    extracted safe_eval closure agree on the concrete pool cross product"""
    import warnings
    warnings.simplefilter('ignore')
    n = 0
    for op in ('+', '-', '*', '/', '^', '%', 'U-', 'U+', '&', '=', '<', '>', '<=', '>=', '<>'):
        se = closure_of(OPERATORS[op], 'safe_eval')
        wrapper = OPERATORS[op]
        while hasattr(wrapper, '__wrapped__') and not hasattr(wrapper, '__closure__'):
            wrapper = wrapper.__wrapped__
        unary = op in ('U-', 'U+', '%')
        for k1, v1 in POOL.items():
            for k2, v2 in ([(None, None)] if unary else POOL.items()):
                args = (v1,) if unary else (v1, v2)
                pub = OPERATORS[op](*args)
                pub = np.ravel(pub)[0] if isinstance(pub, np.ndarray) else pub
                ap = closure_of(OPERATORS[op], 'args_parser')
                ker = se(*ap(*args))
                n += 1
                same = (pub is ker) or (type(pub) == type(ker) and pub == ker) or \
                    (isinstance(pub, (int, float)) and isinstance(ker, (int, float)) and pub == ker)
                if not same:
                    return {'status': 'harness_error', 'paths': n, 'detail': 'public %r vs kernel %r for %s%r' % (pub, ker, op, args)}
    return {'status': 'discharged', 'paths': n, 'queries': n, 'detail': '%d concrete cases agree' % n}

"""C13 obligation for Engine B: RANDBETWEEN's kernel with the random source replaced by an
arbitrary double u in [0, 1) - its documented contract."""
import z3
from vlib import symtrace as st
from vlib.symrun import summarize
from vlib.stubs import apply_common

apply_common()
import numpy as np
import formulas.functions as F
import formulas.functions.math as M
from formulas.tokens.operand import XlError

NUM, VALUE = F.Error.errors['#NUM!'], F.Error.errors['#VALUE!']


def randbetween_halves(bits=12):
    """bounds that are multiples of one half (1.5, -2.5 ...): the result is an integer r with
    bottom <= r <= top, #NUM! exactly when no integer lies between them"""
    st.MODE = 'bv'
    st.install_numpy_stubs()
    M.math = st.SMath()
    u = z3.FP('u', st.F64)
    b, t = z3.BitVec('b', 64), z3.BitVec('t', 64)          # bounds = b / 2, t / 2
    saved = np.random.rand
    np.random.rand = lambda *a: st.SFloat(u)
    lim = 1 << bits
    try:
        def body():
            return M.xrandbetween(st.SInt(b) / 2.0, st.SInt(t) / 2.0)

        def post(out):
            if out[0] == 'exc':
                return False
            r = out[1]
            # smallest integer >= b/2 and largest integer <= t/2, in doubled units
            lo = z3.If(z3.URem(b, 2) == 0, b, b + 1)
            hi = z3.If(z3.URem(t, 2) == 0, t, t - 1)
            if r is NUM:
                return hi < lo
            if isinstance(r, XlError):
                return False
            rt = st.fp(r)
            isint = z3.fpEQ(z3.fpRoundToIntegral(z3.RTZ(), rt), rt)
            two = z3.FPVal(2.0, st.F64)
            r2 = z3.fpMul(st.RNE, rt, two)
            return z3.And(hi >= lo, isint, z3.fpGEQ(r2, st.fp(st.SInt(lo))), z3.fpLEQ(r2, st.fp(st.SInt(hi))))
        zero, one = z3.FPVal(0.0, st.F64), z3.FPVal(1.0, st.F64)
        res = st.explore(body, post, [z3.fpGEQ(u, zero), z3.fpLT(u, one), b > -lim, b < lim, t > -lim, t < lim],
                         timeout_s=400, use_cvc5=True)
        return summarize(res, {'b': b, 't': t, 'u': u})
    finally:
        np.random.rand = saved


def randbetween(bits=30):
    st.MODE = 'bv'
    st.install_numpy_stubs()
    M.math = st.SMath()
    u = z3.FP('u', st.F64)
    b, t = z3.BitVec('b', 64), z3.BitVec('t', 64)
    saved = np.random.rand
    np.random.rand = lambda *a: st.SFloat(u)
    lim = 1 << bits
    try:
        def body():
            return M.xrandbetween(st.SInt(b), st.SInt(t))

        def post(out):
            if out[0] == 'exc':
                return False
            r = out[1]
            if r is NUM:
                return t < b
            if isinstance(r, XlError):
                return False
            if isinstance(r, st.SInt):
                return z3.And(t >= b, r.t >= b, r.t <= t)
            if isinstance(r, st.SFloat):
                isint = z3.fpEQ(z3.fpRoundToIntegral(z3.RTZ(), r.t), r.t)
                return z3.And(t >= b, isint, z3.fpGEQ(r.t, st.fp(st.SInt(b))), z3.fpLEQ(r.t, st.fp(st.SInt(t))))
            return False
        zero, one = z3.FPVal(0.0, st.F64), z3.FPVal(1.0, st.F64)
        res = st.explore(body, post, [z3.fpGEQ(u, zero), z3.fpLT(u, one), b > -lim, b < lim, t > -lim, t < lim],
                         timeout_s=400, use_cvc5=True)
        return summarize(res, {'b': b, 't': t, 'u': u})
    finally:
        np.random.rand = saved

# C05 harness (shapes are selectors; numpy performs the broadcasting, so every path
# runs natively): fitting a value to a destination range, element-wise lifting with
# Excel's broadcasting, and few vs very many arguments.
from vlib.stubs import apply_common
apply_common()
from vlib.sel import sel, concrete
import numpy as np
import schedula as sh
import formulas
from formulas.ranges import Ranges
from formulas.cell import Cell
from formulas.functions import get_functions, Error, Array
from formulas.functions.operators import OPERATORS
from formulas.tokens.operand import XlError

NA = Error.errors['#N/A']
F = get_functions()
KNOWN_TRANSPOSE = __KNOWN_TRANSPOSE__
OP = __OP__          # operator / function index for lift_ok, fixed per generated copy
COLS = 'ABCD'


def ref(dr, dc):
    return 'A1' if (dr, dc) == (1, 1) else 'A1:%s%d' % (COLS[dc - 1], dr)


def tagged(sr, sc):
    a = np.empty((sr, sc), object)
    for i in range(sr):
        for j in range(sc):
            a[i, j] = (i + 1) * 10 + (j + 1)
    return a


def fit_spec(sr, sc, dr, dc):
    """a scalar fills, a single row or column repeats along the other dimension, surplus
    elements are dropped, cells the value does not reach are #N/A"""
    out = []
    for i in range(dr):
        row = []
        for j in range(dc):
            si = 0 if sr == 1 else i
            sj = 0 if sc == 1 else j
            row.append((si + 1) * 10 + (sj + 1) if si < sr and sj < sc else NA)
        out.append(row)
    return out


def transposed_vector(sr, sc, dr, dc):
    return (sr, sc) != (dr, dc) and min(sr, sc) == 1 and min(dr, dc) == 1 and max(sr, sc) == max(dr, dc)


def _fit(sr, sc, dr, dc, how):
    if KNOWN_TRANSPOSE and transposed_vector(sr, sc, dr, dc):
        return True
    want = fit_spec(sr, sc, dr, dc)
    src = tagged(sr, sc)
    if how == 0:
        got = Ranges().push(ref(dr, dc), src).value
    elif how == 1:
        got = Ranges().push(ref(dr, dc), src.view(Array)).value
    else:
        # a formula result stored into the cell's own range
        lit = '={%s}' % ';'.join(','.join(str(v) for v in row) for row in src.tolist())
        cell = Cell(ref(dr, dc), lit).compile()
        dsp = sh.Dispatcher()
        cell.add(dsp)
        got = dsp()[cell.output].value
    return np.shape(got) == (dr, dc) and [[(v if isinstance(v, XlError) else int(v)) for v in row] for row in got.tolist()] == want


def fit_ok(a0: bool, a1: bool, b0: bool, b1: bool, c0: bool, c1: bool, d0: bool, d1: bool, h0: bool, h1: bool) -> bool:
    """
    pre: sel(h0, h1) < 3
    post: _
    """
    return concrete(_fit, 1 + sel(a0, a1), 1 + sel(b0, b1), 1 + sel(c0, c1), 1 + sel(d0, d1), sel(h0, h1))


# ---- element-wise lifting ----------------------------------------------------
POOLV = [1, 2.5, -3, True, 'x', '4', sh.EMPTY, Error.errors['#DIV/0!'], 0, 'y', False, Error.errors['#N/A']]
LIFT = ['+', '*', '/', '&', '=', '<', 'IF3', 'MAX2f', 'ROUND', 'LEFT']


def elem(shape, k):
    r, c = shape
    a = np.empty((r, c), object)
    for i in range(r):
        for j in range(c):
            a[i, j] = POOLV[(k + 5 * i + 3 * j) % len(POOLV)]
    return a if (r, c) != (0, 0) else POOLV[k % len(POOLV)]


def call(op, *args):
    if op in OPERATORS and op in ('+', '*', '/', '&', '=', '<'):
        return OPERATORS[op](*args)
    if op == 'IF3':
        return F['IF']['function'](args[0], args[1], 'else')
    if op == 'MAX2f':
        return F['IFERROR']['function'](args[0], args[1])
    if op == 'ROUND':
        return F['ROUND'](args[0], args[1])
    return F['LEFT'](args[0], args[1])


def at(x, i, j):
    if not isinstance(x, np.ndarray):
        return x
    r, c = x.shape
    return x[i if r > 1 else 0, j if c > 1 else 0]


def _lift(s1, s2, k1, k2):
    shapes = [(0, 0), (1, 1), (1, 3), (3, 1), (2, 3), (1, 2), (2, 1), (2, 2)]
    sh1, sh2 = shapes[s1], shapes[s2]
    x = POOLV[k1] if sh1 == (0, 0) else elem(sh1, k1)
    y = POOLV[k2] if sh2 == (0, 0) else elem(sh2, k2)
    r1, c1 = (1, 1) if sh1 == (0, 0) else sh1
    r2, c2 = (1, 1) if sh2 == (0, 0) else sh2
    if (r1 != r2 and 1 not in (r1, r2)) or (c1 != c2 and 1 not in (c1, c2)):
        return True          # not broadcastable under Excel's rule: other obligations
    op = LIFT[OP]
    got = call(op, x, y)
    got = np.asarray(got, object)
    R, C = max(r1, r2), max(c1, c2)
    if got.shape not in ((R, C), ()) or (got.shape == () and (R, C) != (1, 1)):
        return False
    for i in range(R):
        for j in range(C):
            want = np.asarray(call(op, at(x, i, j), at(y, i, j)), object).ravel()[0]
            g = got[i, j] if got.shape else got[()]
            same = (g is want) if isinstance(want, XlError) else (type(g) is type(want) and g == want)
            if not same:
                return False
    return True


def lift_ok(s0: bool, s1: bool, s2: bool, t0: bool, t1: bool, t2: bool, k0: bool, k1: bool, k2: bool, k3: bool,
            m0: bool, m1: bool, m2: bool, m3: bool) -> bool:
    """
    pre: sel(k0, k1, k2, k3) < len(POOLV) and sel(m0, m1, m2, m3) < len(POOLV)
    post: _
    """
    # position by position the scalar result for the corresponding elements
    return concrete(_lift, sel(s0, s1, s2), sel(t0, t1, t2), sel(k0, k1, k2, k3), sel(m0, m1, m2, m3))


# ---- few vs very many arguments ---------------------------------------------------
UNARY = ['ISNUMBER', 'ISTEXT', 'ISERROR', 'ISBLANK', 'ISLOGICAL', 'ISNA', 'ISNONTEXT', 'ISERR', 'NOT', 'ABS', 'LEN', 'T_OF_TRANSPOSE']


def relayout(a, layout):
    """the same logical array in another memory layout (results of TRANSPOSE, slices and numpy operations are
    views / Fortran-ordered arrays; position (i, j) means the same element whatever the layout)"""
    if not isinstance(a, np.ndarray):
        return a
    if layout == 1:
        return np.asfortranarray(a)
    if layout == 2:
        return a.T.copy().T                    # what TRANSPOSE hands on: a transposed view
    if layout == 3:
        big = np.empty((a.shape[0] * 2, a.shape[1] * 2), object)
        big[:] = 'pad'
        big[::2, ::2] = a
        return big[::2, ::2]                   # a strided slice
    return a


def plain(v):
    return v.item() if isinstance(v, np.generic) else v


def call1(name, x):
    if name == 'T_OF_TRANSPOSE':               # through the real TRANSPOSE
        return F['ISNUMBER'](F['TRANSPOSE'](F['TRANSPOSE'](x))) if isinstance(x, np.ndarray) else F['ISNUMBER'](x)
    f = F[name]
    return (f['function'] if isinstance(f, dict) else f)(x)


def _unary(s, k, layout, fi):
    shapes = [(0, 0), (1, 1), (1, 3), (3, 1), (2, 3), (3, 2), (2, 2), (2, 4)]
    shp = shapes[s]
    x = POOLV[k] if shp == (0, 0) else elem(shp, k)
    name = UNARY[fi]
    got = np.asarray(call1(name, relayout(x, layout)), object)
    R, C = (1, 1) if shp == (0, 0) else shp
    if got.shape not in ((R, C), ()) or (got.shape == () and (R, C) != (1, 1)):
        return False
    for i in range(R):
        for j in range(C):
            want = plain(np.asarray(call1(name, at(x, i, j)), object).ravel()[0])
            g = plain(got[i, j] if got.shape else got[()])
            same = (g is want) if isinstance(want, XlError) else (type(g) is type(want) and g == want)
            if not same:
                return False
    return True


def unary_ok(s0: bool, s1: bool, s2: bool, k0: bool, k1: bool, k2: bool, k3: bool, l0: bool, l1: bool,
             f0: bool, f1: bool, f2: bool, f3: bool) -> bool:
    """
    pre: sel(k0, k1, k2, k3) < len(POOLV) and sel(f0, f1, f2, f3) < len(UNARY)
    post: _
    """
    # element-wise functions of one argument, position by position, whatever the memory layout of the array
    return concrete(_unary, sel(s0, s1, s2), sel(k0, k1, k2, k3), sel(l0, l1), sel(f0, f1, f2, f3))


def _many(s1, s2, n, pos):
    shapes = [(0, 0), (1, 2), (2, 1), (2, 2), (1, 1), (3, 1), (1, 3), (2, 3)]
    x = 's' if shapes[s1] == (0, 0) else elem(shapes[s1], 4)
    y = 't' if shapes[s2] == (0, 0) else elem(shapes[s2], 9)
    r1, c1 = (1, 1) if shapes[s1] == (0, 0) else shapes[s1]
    r2, c2 = (1, 1) if shapes[s2] == (0, 0) else shapes[s2]
    if (r1 != r2 and 1 not in (r1, r2)) or (c1 != c2 and 1 not in (c1, c2)):
        return True
    args = ['p'] * n
    args[(pos + 3) % n] = True                   # a logical and a number typed among the text arguments
    args[(pos + 4) % n] = 2.0
    if s1 == 4:
        args[(pos + 5) % n] = Error.errors['#NUM!']   # and, for one shape class, an error value
    args[pos % n] = x
    args[(pos + 7) % n] = y
    few = [a for a in args if not (isinstance(a, str) and a == 'p')]
    a = np.asarray(F['CONCATENATE'](*args), object)
    # the same call with only the two interesting arguments and the padding text written out
    b = np.asarray(F['CONCATENATE'](*[(v if not (isinstance(v, str) and v == 'p') else 'p') for v in args[:31]]), object) \
        if n <= 31 else None
    # oracle: element-wise, with n-2 literal "p" around
    R, C = max(r1, r2), max(c1, c2)
    if a.shape not in ((R, C), ()):
        return False
    for i in range(R):
        for j in range(C):
            parts = list(args)
            parts[pos % n] = at(x, i, j)
            parts[(pos + 7) % n] = at(y, i, j)
            err = [p for p in parts if isinstance(p, XlError)]
            want = err[0] if err else ''.join(
                ('TRUE' if p is True else 'FALSE' if p is False else '' if p is sh.EMPTY else
                 str(int(p)) if isinstance(p, float) and p == int(p) else str(p)) for p in parts)
            g = a[i, j] if a.shape else a[()]
            if not ((g is want) if isinstance(want, XlError) else g == want):
                return False
    return True


def many_args_ok(s0: bool, s1: bool, s2: bool, t0: bool, t1: bool, t2: bool, n0: bool, n1: bool, n2: bool, p0: bool, p1: bool) -> bool:
    """
    post: _
    """
    # argument counts 9, 30, 31, 32, 33, 40, 48, 64 - the same element-wise answer on both sides of
    # numpy's 32-argument limit
    n = [9, 30, 31, 32, 33, 40, 48, 64][sel(n0, n1, n2)]
    return concrete(_many, sel(s0, s1, s2), sel(t0, t1, t2), n, [0, 1, 5, 8][sel(p0, p1)])

# C14 harness, file level (tier S): the same statement for a workbook READ FROM A FILE - defined names
# come from the workbook's name table, missing sheets / workbooks are looked for on disk.  Which fault
# each of two formula cells carries is chosen by selectors.
from vlib.stubs import apply_common
apply_common()
from vlib.sel import sel, concrete
import logging
import os
import shutil
import tempfile
import numpy as np
import openpyxl
from openpyxl.workbook.defined_name import DefinedName
import formulas
from formulas.tokens.operand import XlError

logging.disable(logging.CRITICAL)
WORK = (os.environ.get('VERIF_OUT') or '/verif') + '/.work'
FAULTS = [
    ('=%s+1', None),
    ('=FOO(%s)', ('#NAME?',)),                       # 1 unimplemented function
    ('=ZZ!A1+%s', ('#REF!',)),                       # 2 absent sheet
    ("='[zz.xlsx]S'!A1+%s", ('#REF!',)),             # 3 absent workbook file
    ('=NONAME+%s', ('#REF!', '#NAME?')),             # 4 undefined name
    ('=MARGIN+%s', ('#REF!', '#NAME?')),             # 5 a defined name whose own formula uses an undefined name
    ('=RATE+%s', ('#REF!', '#NAME?')),               # 6 a defined name that is a plain alias of an undefined name
    ('=Überfn(%s)', ('#NAME?',)),               # 7 unimplemented function, non-ASCII first letter
    ('=Prüfsumme(%s)', ('#NAME?',)),            # 8 ... non-ASCII letter inside
    ('=_xlfn.NEWFUNC(%s)', ('#NAME?',)),             # 9 future-function prefix
]
NF = len(FAULTS)
K = "'[book.xlsx]S'!%s"


def scalar(v):
    v = v.value if hasattr(v, 'value') else v
    v = np.ravel(v)[0] if isinstance(v, np.ndarray) else v
    return str(v) if isinstance(v, XlError) else (v.item() if isinstance(v, np.generic) else v)


def _files(k1, k2):
    os.makedirs(WORK, exist_ok=True)
    tmp = tempfile.mkdtemp(prefix='c14f-', dir=WORK)
    try:
        wb = openpyxl.Workbook()
        ws = wb.active
        ws.title = 'S'
        ws['A1'], ws['A2'] = 5, 3
        ws['B1'], ws['B2'] = FAULTS[k1][0] % 'A1', FAULTS[k2][0] % 'A2'
        ws['C1'] = '=B1+B2'
        ws['D1'] = '=IFERROR(B1,-1)'
        ws['D2'] = '=ISERROR(B2)'
        ws['G1'] = '=A2*2+A1'
        ws['G2'] = '=SUM(A1:A2)'
        wb.defined_names['MARGIN'] = DefinedName('MARGIN', attr_text='BASERATE*2')
        wb.defined_names['RATE'] = DefinedName('RATE', attr_text='BASERATE')
        path = os.path.join(tmp, 'book.xlsx')
        wb.save(path)
        try:
            sol = formulas.ExcelModel().loads(path).finish().calculate()
        except Exception:
            return False                     # loading, completion and calculation are never aborted
        if any(K % c not in sol for c in ('B1', 'B2', 'C1', 'D1', 'D2', 'G1', 'G2', 'A1')):
            return False                     # every cell gets a value
        val = lambda c: scalar(sol[K % c])
        if val('G1') != 11 or val('G2') != 8 or val('A1') != 5:
            return False                     # cells that do not depend on the unresolved item keep their values
        for c, k, healthy in (('B1', k1, 6), ('B2', k2, 4)):
            if FAULTS[k][1] is None:
                if val(c) != healthy:
                    return False
            elif val(c) not in FAULTS[k][1]:
                return False                 # an ordinary error value of the stated kind
        bad1, bad2 = FAULTS[k1][1] is not None, FAULTS[k2][1] is not None
        if val('D1') != (-1 if bad1 else 6) or val('D2') is not bad2:
            return False                     # IFERROR / ISERROR intercept it
        c1 = val('C1')
        return (c1 == val('B1') if bad1 else c1 == val('B2')) if (bad1 or bad2) else c1 == 10
    finally:
        shutil.rmtree(tmp, ignore_errors=True)


def files_ok(a0: bool, a1: bool, a2: bool, a3: bool, b0: bool, b1: bool, b2: bool, b3: bool) -> bool:
    """
    pre: sel(a0, a1, a2, a3) < NF and sel(b0, b1, b2, b3) < NF
    post: _
    """
    return concrete(_files, sel(a0, a1, a2, a3), sel(b0, b1, b2, b3))

# C04 harness: column conversions and canonical naming.  Columns are symbolic
# (all 16384 / every [A-Za-z]{1,3} spelling), rows are the concrete boundary
# pool values R1, R2 substituted per generated copy (str(int) on a symbolic int
# is where CrossHair stalls; the code treats rows only through int()/str()).
from vlib.stubs import apply_common
apply_common()
import formulas.tokens.operand as O

MAXC, MAXR = O.maxcol, O.maxrow
R1, R2 = __R1__, __R2__           # row numbers (ints); 0 with MAXR = whole columns
KNOWN_EDGE = __KNOWN_EDGE__       # True: exclude the listed finding class (see known_findings.json)


def spec_col(n):
    s = ''
    while n > 0:
        n, rem = divmod(n - 1, 26)
        s = chr(65 + rem) + s
    return s


def spec_index(col):
    v = 0
    for ch in col:
        v = v * 26 + (ord(ch.upper()) - 64)
    return v


def spec_ref(n1, r1, n2, r2):
    """the statement's canonical text of rectangle (n1, r1, n2, r2); n1 == 0 with
    n2 == MAXC is the whole-row form, r1 == 0 with r2 == MAXR the whole-column form"""
    whole_rows = n1 == 0 and n2 == MAXC
    whole_cols = r1 == 0 and r2 == MAXR
    a = spec_col(n1) + ('' if r1 == 0 else str(r1))
    if n1 == n2 and r1 == r2 and n1 and r1:
        return a
    b = ('' if whole_rows else spec_col(n2)) + ('' if whole_cols else str(r2))
    return a + ':' + b


def is_col(s):
    return 1 <= len(s) <= 3 and all('A' <= ch <= 'Z' or 'a' <= ch <= 'z' for ch in s)


def mkcol(L, k1, k2, k3, low):
    """column spelling from symbolic letter indices: every [A-Z]{1,3} or [a-z]{1,3}"""
    base = 97 if low else 65
    if L == 1:
        return chr(base + k1)
    if L == 2:
        return chr(base + k1) + chr(base + k2)
    return chr(base + k1) + chr(base + k2) + chr(base + k3)


def colval(L, k1, k2, k3):
    if L == 1:
        return k1 + 1
    if L == 2:
        return (k1 + 1) * 26 + k2 + 1
    return (k1 + 1) * 676 + (k2 + 1) * 26 + k3 + 1


def edge(n1, r1, n2, r2):
    """rectangles touching the last column / last row without being whole rows / columns"""
    return (n2 == MAXC and n1 != 0) or (r2 == MAXR and r1 != 0)


# ---- (1) letters <-> numbers ------------------------------------------------

def col_roundtrip_ok(n: int) -> bool:
    """
    pre: 1 <= n <= MAXC
    post: _
    """
    c = O._index2col(n)
    return O._col2index(c) == n and c == spec_col(n) and 1 <= len(c) <= 3 and c.isupper() and c.isalpha()


def col_roundtrip_str_ok(L: int, k1: int, k2: int, k3: int, l1: bool, l2: bool, l3: bool) -> bool:
    """
    pre: 1 <= L <= 3 and 0 <= k1 < 26 and 0 <= k2 < 26 and 0 <= k3 < 26
    pre: colval(L, k1, k2, k3) <= MAXC
    post: _
    """
    # every spelling [A-Za-z]{1,3} (mixed case) up to XFD
    s = (chr((97 if l1 else 65) + k1) + chr((97 if l2 else 65) + k2) + chr((97 if l3 else 65) + k3))[:L]
    n = O._col2index(s)
    return n == colval(L, k1, k2, k3) and 1 <= n <= MAXC and O._index2col(n) == s.upper()


def col_zero_ok(n: int) -> bool:
    """
    pre: -5 <= n <= 0
    post: _
    """
    return O._index2col(n) == ''


# ---- (2) canonical names ------------------------------------------------------

def name_v4_ok(n1: int, n2: int) -> bool:
    """
    pre: 1 <= n1 <= n2 <= MAXC
    pre: not (KNOWN_EDGE and edge(n1, R1, n2, R2))
    post: _
    """
    p = O.fast_range2parts(r1=R1, n1=n1, r2=R2, n2=n2, sheet_id='')
    ok = p['name'] == spec_ref(n1, R1, n2, R2) and p['ref'] == p['name']
    return ok and (p['n1'], p['n2'], int(p['r1']), int(p['r2'])) == (n1, n2, R1, R2) \
        and p['c1'] == spec_col(n1) and p['c2'] == spec_col(n2)


def name_v4_str_rows_ok(n1: int, n2: int) -> bool:
    """
    pre: 1 <= n1 <= n2 <= MAXC
    pre: not (KNOWN_EDGE and edge(n1, R1, n2, R2))
    post: _
    """
    # rows as the regex delivers them (text); sheet prefix kept verbatim
    p = O.fast_range2parts(r1=str(R1), n1=n1, r2=str(R2), n2=n2, sheet_id='SH')
    return p['name'] == 'SH!' + spec_ref(n1, R1, n2, R2) and p['ref'] == spec_ref(n1, R1, n2, R2)


def name_v2_ok(L: int, k1: int, k2: int, k3: int, low: bool) -> bool:
    """
    pre: 1 <= L <= 3 and 0 <= k1 < 26 and 0 <= k2 < 26 and 0 <= k3 < 26
    pre: colval(L, k1, k2, k3) <= MAXC
    pre: not (KNOWN_EDGE and edge(colval(L, k1, k2, k3), R1, colval(L, k1, k2, k3), R2))
    post: _
    """
    # letter spelling (upper or lower case) of a one-column rectangle
    c1 = mkcol(L, k1, k2, k3, low)
    p = O.fast_range2parts(r1=str(R1), c1=c1, r2=str(R2), c2=mkcol(L, k1, k2, k3, not low), sheet_id='')
    n1 = colval(L, k1, k2, k3)
    return p['name'] == spec_ref(n1, R1, n1, R2) and (p['n1'], p['n2']) == (n1, n1)


def name_v2_wide_ok(L: int, k1: int, k2: int, k3: int, low: bool) -> bool:
    """
    pre: 1 <= L <= 3 and 0 <= k1 < 26 and 0 <= k2 < 26 and 0 <= k3 < 26
    pre: colval(L, k1, k2, k3) <= MAXC
    pre: not (KNOWN_EDGE and edge(colval(L, k1, k2, k3), R1, MAXC, R2))
    post: _
    """
    # letter spelling reaching the last column, which is written in lower case
    p = O.fast_range2parts(r1=str(R1), c1=mkcol(L, k1, k2, k3, low), r2=str(R2), c2='xfd', sheet_id='')
    n1 = colval(L, k1, k2, k3)
    return p['name'] == spec_ref(n1, R1, MAXC, R2) and (p['n1'], p['n2']) == (n1, MAXC)


def name_v1_v3_ok(n: int) -> bool:
    """
    pre: 1 <= n <= MAXC
    pre: R1 >= 1
    pre: not (KNOWN_EDGE and edge(n, R1, n, R1))
    post: _
    """
    # single cell: number spelling (R1C1 notation), letter spelling, lower case,
    # and the redundant A1:A1 form all give one name
    c = spec_col(n)
    a = O.fast_range2parts(r1=str(R1), n1=n, sheet_id='')
    b = O.fast_range2parts(r1=str(R1), c1=c, sheet_id='')
    d = O.fast_range2parts(r1=str(R1), c1=c.lower(), sheet_id='')
    e = O.fast_range2parts(r1=str(R1), c1=c, r2=str(R1), c2=c, sheet_id='')
    want = spec_ref(n, R1, n, R1)
    ok = a['name'] == want and b['name'] == want and d['name'] == want and e['name'] == want
    return ok and a['n1'] == a['n2'] == b['n1'] == b['n2'] == d['n1'] == e['n2'] == n


def name_whole_rows_ok(same: bool) -> bool:
    """
    pre: R1 >= 1
    post: _
    """
    # whole rows R1:R2 as the general resolver delivers them (n1 = 0, n2 = MAXC)
    p = O.fast_range2parts(r1=str(R1), n1=0, r2=str(R2), n2=MAXC, sheet_id='')
    return p['name'] == spec_ref(0, R1, MAXC, R2)

# C10 harness, workbook level (tier S - every variable is a boolean selector).
# Three cells A1, B1, C1 form a ring (each may refer to the next one: plainly,
# or through the selected / unselected branch of IF, or through IFERROR); D1 is
# the guard flag; E1 depends on A1, G1 on an independent constant F1.
from vlib.stubs import apply_common
apply_common()
from vlib.sel import sel, concrete
import numpy as np
import formulas
from formulas.tokens.operand import XlError
import hashref

P = "'[b]S'!"
RING = ['A1', 'B1', 'C1']
KIND_A = __KIND_A__        # formula kind of A1 fixed per generated copy
NK = 6


def formula(kind, nxt):
    n = P + nxt
    return [
        None,                                        # 0 constant
        '=%s+1' % n,                                 # 1 plain reference
        '=IF(%sD1, %s+1, 7)' % (P, n),               # 2 reference in the THEN branch
        '=IF(%sD1, 7, %s+1)' % (P, n),               # 3 reference in the ELSE branch
        '=IFERROR(5, %s+1)' % n,                     # 4 reference only in the unused fallback
        '=IF(%sD1, %s, %s)+1' % (P, n, n),           # 5 both branches refer: cannot be avoided
    ][kind]


def build(kinds, flag):
    d = {P + 'D1': bool(flag), P + 'F1': 5, P + 'G1': '=%sF1*2' % P, P + 'E1': '=%sA1+100' % P}
    for i, c in enumerate(RING):
        f = formula(kinds[i], RING[(i + 1) % 3])
        d[P + c] = (10 * (i + 1)) if f is None else f
    return d


def selected(k, flag):
    """is the reference to the next ring cell in a branch that is evaluated?"""
    return k in (1, 5) or (k == 2 and flag) or (k == 3 and not flag)


def lazy_values(kinds, flag):
    """lazy evaluation over the same ring: only selected branches are followed"""
    def ev(i, visiting):
        if i in visiting:
            return 'CIRC'
        k = kinds[i]
        if k == 0:
            return 10 * (i + 1)
        if k == 4:
            return 5
        if not selected(k, flag):
            return 7
        v = ev((i + 1) % 3, visiting | {i})
        return v if isinstance(v, str) else v + 1
    out = {c: ev(i, frozenset()) for i, c in enumerate(RING)}
    a = out['A1']
    out['E1'] = a if isinstance(a, str) else a + 100
    return out


def classify(kinds, flag):
    """'acyclic'      no structural cycle: exact values
       'unavoidable'  every edge of the ring is followed by lazy evaluation: circular error
       'must_resolve' the ring closes only through lazy branches, none of them selected
       'free'         some lazy branch on the ring is selected, another is not: the
                      statement lets the implementation report either the circular error
                      or the lazily evaluated value"""
    if any(k == 0 for k in kinds):
        return 'acyclic'
    if all(selected(k, flag) for k in kinds):
        return 'unavoidable'
    if not any(selected(k, flag) for k in kinds if k != 1):
        return 'must_resolve'
    return 'free'


def scalar(v):
    v = v.value if hasattr(v, 'value') else v
    v = np.ravel(v)[0] if isinstance(v, np.ndarray) else v
    return v


def book_ok(b0: bool, b1: bool, b2: bool, c0: bool, c1: bool, c2: bool, flag: bool) -> bool:
    """
    pre: sel(b0, b1, b2) < NK and sel(c0, c1, c2) < NK
    post: _
    """
    kinds = [KIND_A, sel(b0, b1, b2), sel(c0, c1, c2)]
    return concrete(_book, kinds, True if flag else False)


CELLS = RING + ['D1', 'E1', 'F1', 'G1']


def outcome(sol):
    out = {}
    for c in CELLS:
        v = scalar(sol[P + c]) if P + c in sol else 'MISSING'
        out[c] = str(v) if isinstance(v, (str, XlError)) else float(v)
    return out


def solve(kinds, flag, order=0):
    return formulas.ExcelModel().from_dict(hashref.reorder(build(kinds, flag), order)).finish(circular=True).calculate()


def all_outcomes():
    return {'%d,%d,%d' % (kb, kc, f): outcome(solve([KIND_A, kb, kc], bool(f))) for kb in range(NK) for kc in range(NK) for f in (0, 1)}


def _book(kinds, flag):
    sol = solve(kinds, flag)
    # the outcome depends neither on the order the cells were added ...
    base = outcome(sol)
    if any(outcome(solve(kinds, flag, order)) != base for order in (1, 2, 3)):
        return False
    # ... nor on the interpreter's hash seed (copies run under a seed != 0 compare with a seed-0 child)
    ref = hashref.reference(__file__)
    if ref is not None and ref['%d,%d,%d' % (kinds[1], kinds[2], 1 if flag else 0)] != base:
        return False
    want, cls = lazy_values(kinds, flag), classify(kinds, flag)
    if scalar(sol[P + 'G1']) != 10 or scalar(sol[P + 'F1']) != 5:
        return False                     # cells that do not depend on the ring are untouched
    for c in RING + ['E1']:
        got, w = scalar(sol[P + c]), want[c]
        if cls in ('acyclic', 'must_resolve'):
            if isinstance(got, XlError) or float(got) != float(w):
                return False
        elif cls == 'unavoidable':
            if not isinstance(got, XlError):
                return False
        elif not isinstance(got, XlError):
            # any ordinary value that is reported is the lazily evaluated one
            if w == 'CIRC' or float(got) != float(w):
                return False
    if cls == 'unavoidable' and not any(scalar(sol[P + c]) is formulas.ERR_CIRCULAR for c in RING):
        return False
    return True


if hashref.child_mode(__file__):
    hashref.emit(all_outcomes())

# C06 bounded harness: multi-area operands on a G x G grid.  One area (the
# "partition" area P) is fixed per generated copy of this file; every other
# coordinate and the witness cell are symbolic.
from vlib.stubs import apply_common
apply_common()
import formulas.ranges as R
import formulas.tokens.operand as O

G = __G__
P = __P__            # (n1, n2, r1, r2) of the fixed area
Q = __Q__            # (n1, n2): fixed columns of the second area in the simplify conditions
R.str = lambda v: v
_col2index = O._col2index


def _fmt(outputs, **kw):
    kw = dict(kw)
    if 'n1' not in kw:                       # pushed by name ("B:B") inside simplify()
        kw['n1'] = _col2index(kw['c1'])
        kw['n2'] = _col2index(kw.get('c2', kw['c1']))
        kw['r1'] = int(kw.get('r1', 0))
        kw['r2'] = int(kw.get('r2', R.maxrow))
        kw.setdefault('sheet_id', 'S')
    kw['name'] = (kw.get('sheet_id'), kw['n1'], kw['r1'], kw['n2'], kw['r2'])
    return kw


R.Ranges.format_range = staticmethod(_fmt)
R.Ranges.__repr__ = lambda self: '<Ranges>'


def mk(n1, n2, r1, r2, sheet='S'):
    return {'sheet_id': sheet, 'n1': n1, 'n2': n2, 'r1': r1, 'r2': r2,
            'name': (sheet, n1, r1, n2, r2)}


def inside(z, c, r):
    return z['n1'] <= c <= z['n2'] and int(z['r1']) <= r <= int(z['r2'])


def cover(ranges, c, r):
    return sum(1 for p in ranges if inside(p, c, r))


def sub_1m2_ok(a1: int, a2: int, b1: int, b2: int, e1: int, e2: int, f1: int, f2: int, c: int, r: int) -> bool:
    """
    pre: 1 <= a1 <= a2 <= G and 1 <= b1 <= b2 <= G
    pre: 1 <= e1 <= e2 <= G and 1 <= f1 <= f2 <= G
    pre: 1 <= c <= G and 1 <= r <= G
    post: _
    """
    # one area minus (P, second area): disjoint cover of x \ (P U y2)
    x = R.Ranges((mk(a1, a2, b1, b2),))
    y = R.Ranges((mk(*P), mk(e1, e2, f1, f2)))
    z = x - y
    exp = 1 if (inside(x.ranges[0], c, r) and not cover(y.ranges, c, r)) else 0
    return cover(z.ranges, c, r) == exp


def sub_2m1_ok(a1: int, a2: int, b1: int, b2: int, e1: int, e2: int, f1: int, f2: int, c: int, r: int) -> bool:
    """
    pre: 1 <= a1 <= a2 <= G and 1 <= b1 <= b2 <= G
    pre: 1 <= e1 <= e2 <= G and 1 <= f1 <= f2 <= G
    pre: 1 <= c <= G and 1 <= r <= G
    post: _
    """
    # (x1, x2) minus P : every cell of x1 U x2 outside P exactly once (no duplicates)
    x = R.Ranges((mk(a1, a2, b1, b2), mk(e1, e2, f1, f2)))
    y = R.Ranges((mk(*P),))
    z = x - y
    exp = 1 if (cover(x.ranges, c, r) and not inside(y.ranges[0], c, r)) else 0
    return cover(z.ranges, c, r) == exp


def and_multi_ok(a1: int, a2: int, b1: int, b2: int, e1: int, e2: int, f1: int, f2: int, c: int, r: int) -> bool:
    """
    pre: 1 <= a1 <= a2 <= G and 1 <= b1 <= b2 <= G
    pre: 1 <= e1 <= e2 <= G and 1 <= f1 <= f2 <= G
    pre: 1 <= c <= G and 1 <= r <= G
    post: _
    """
    # (P, x2) intersect y : a cell is covered once per pair of areas containing it
    x = R.Ranges((mk(*P), mk(a1, a2, b1, b2)))
    y = R.Ranges((mk(e1, e2, f1, f2),))
    z = x & y
    exp = cover(x.ranges, c, r) * cover(y.ranges, c, r)
    return cover(z.ranges, c, r) == exp


def merge_ok(a: int, b1: int, b2: int, e: int, f1: int, f2: int, c: int, r: int) -> bool:
    """
    pre: 1 <= a <= G and 1 <= b1 <= b2 <= G
    pre: 1 <= e <= G and 1 <= f1 <= f2 <= G
    pre: 1 <= c <= G and 1 <= r <= G
    pre: P[0] == P[1]
    post: _
    """
    # _merge on three one-column strips (the form simplify() feeds it): no cell
    # lost, none added, none covered twice unless strips overlap is fused
    x = R.Ranges((mk(P[0], P[0], P[2], P[3]), mk(a, a, b1, b2), mk(e, e, f1, f2)))
    z = x._merge()
    exp = 1 if cover(x.ranges, c, r) else 0
    return cover(z.ranges, c, r) == exp


def simplify_ok(b1: int, b2: int, c: int, r: int) -> bool:
    """
    pre: 1 <= b1 <= b2 <= G
    pre: 1 <= c <= G and 1 <= r <= G
    post: _
    """
    # simplify(P U x): exactly the cells of the union, each once
    x = R.Ranges((mk(*P), mk(Q[0], Q[1], b1, b2)))
    z = x.simplify()
    exp = 1 if cover(x.ranges, c, r) else 0
    return cover(z.ranges, c, r) == exp


def simplify3_ok(b1: int, b2: int, e: int, f1: int, f2: int, c: int, r: int) -> bool:
    """
    pre: 1 <= b1 <= b2 <= G
    pre: 1 <= e <= G and 1 <= f1 <= f2 <= G
    pre: 1 <= c <= G and 1 <= r <= G
    post: _
    """
    # three areas: P, a rectangle on columns Q, and a one-column strip
    x = R.Ranges((mk(*P), mk(Q[0], Q[1], b1, b2), mk(e, e, f1, f2)))
    z = x.simplify()
    exp = 1 if cover(x.ranges, c, r) else 0
    return cover(z.ranges, c, r) == exp

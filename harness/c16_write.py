# C16 harness (tier S): writing a solution.  Template, constants, override set and the
# way of writing (fresh books / pre-existing books with foreign cells / to disk and read
# back) are boolean selectors; every path runs the real code natively.
from vlib.stubs import apply_common
apply_common()
from vlib.sel import sel, concrete
import os
import shutil
import tempfile
import numpy as np
import schedula as sh
import openpyxl
import formulas
from formulas.excel import BOOK
from formulas.tokens.operand import XlError
import models as M

T = __T__
WORK = (os.environ.get('VERIF_OUT') or '/verif') + '/.work'


def xlsx(d):
    """the same model with book names that can be saved (b.xlsx)"""
    r = lambda s: s.replace("'[b]", "'[b.xlsx]") if isinstance(s, str) else s
    return {r(k): r(v) for k, v in d.items()}


EXTRA = {"'[b.xlsx]S'!L1": '', "'[b.xlsx]S'!L2": '=#N/A', "'[b.xlsx]S'!L3": '#EMPTY', "'[b.xlsx]S'!L4": True,
         "'[b.xlsx]S'!L5": '="x"&""', "'[b.xlsx]S'!L6": '="="&"A1"', "'[b.xlsx]S'!L7": '="=1+"&"1"', "'[b.xlsx]S'!M1:N2": "={1,2;3,4}*'[b.xlsx]S'!A2"}
SETS = [{}, {"'[b.xlsx]S'!A1": 1}, {"'[b.xlsx]S'!A1": 'txt', "'[b.xlsx]S'!A2": 0}, {"'[b.xlsx]S'!H1:I2": [[4, 7], [9, 'q']]},
        {"'[b.xlsx]'!NM": 9}, {"'[b.xlsx]S'!B1": 100}, {"'[b.xlsx]S'!A1": True}, {"'[b.xlsx]S'!A2": M.errors()['#DIV/0!']}]


def expected_cell(v):
    if v is sh.EMPTY or (isinstance(v, str) and not isinstance(v, XlError) and v == ''):
        return None                      # blanks and empty text are empty cells
    if isinstance(v, XlError):
        return str(v)                    # error values as their Excel text
    if isinstance(v, np.generic):
        return v.item()
    return v


def same(a, b):
    if a is None or b is None:
        return a is None and b is None
    if isinstance(a, bool) or isinstance(b, bool):
        return a is b or (isinstance(a, bool) and isinstance(b, bool) and a == b)
    if isinstance(a, (int, float)) and isinstance(b, (int, float)):
        return abs(a - b) <= 1e-9 * max(1, abs(a))
    return a == b


def _write(i, j, k, how):
    pl = M.pool()
    d = xlsx(M.template(T, pl[i], pl[j]))
    d.update(EXTRA)
    m = formulas.ExcelModel().from_dict(d).finish(complete=False)
    sol = m.calculate(inputs=SETS[k])
    pre = None
    if how == 1:                         # into books that already hold other cells
        wb = openpyxl.Workbook()
        ws = wb.active
        ws.title = 'S'
        ws['Z9'], ws['A1'] = 'keep', 'old'
        wb.create_sheet('OTHER')['A1'] = 42
        # the caller's key is spelled as the caller likes (file names are case-insensitive)
        pre = {('B.XLSX', 'b.xlsx', 'B.xlsx')[k % 3]: {BOOK: wb}}
    tmp = None
    try:
        if how == 2:                     # to disk and read back
            os.makedirs(WORK, exist_ok=True)
            tmp = tempfile.mkdtemp(prefix='c16-', dir=WORK)
            m.write(solution=sol, dirpath=tmp)
            books = {f.upper(): {BOOK: openpyxl.load_workbook(os.path.join(tmp, f))} for f in os.listdir(tmp)}
            files = [os.path.join(tmp, f) for f in sorted(os.listdir(tmp))]
            if m.compare(*files, solution=sol):
                return False             # the model compared with its own written files: no difference
            if any(m.compare(f, solution=sol) for f in files):
                return False             # ... nor with any one of them alone
        else:
            books = m.write(books=pre, solution=sol)
            if len({b.upper() for b in books}) != len(books):
                return False             # one workbook per file, whatever the spelling of its key
            if pre is not None and any(books[b][BOOK] is not pre[b][BOOK] for b in pre):
                return False
            books = {b.upper(): v for b, v in books.items()}
        written = set()
        for key, r in sol.items():
            if isinstance(key, sh.Token) or not hasattr(r, 'ranges') or not r.ranges:
                continue
            rng = r.ranges[0]
            sid = rng['sheet_id']
            import re
            if '[' not in sid or not sid.startswith("'") or not re.search(r"![A-Z]{1,3}[0-9]+(:[A-Z]{1,3}[0-9]+)?$", key):
                continue                 # defined names have no place of their own on a sheet
            book, sheet = sid[1:-1].split(']')
            book, sheet = book.strip('[').upper(), sheet.replace("''", "'")
            if sheet not in books[book][BOOK].sheetnames and sheet.upper() not in [n.upper() for n in books[book][BOOK].sheetnames]:
                return False             # at its own sheet
            sheet = [n for n in books[book][BOOK].sheetnames if n.upper() == sheet.upper()][0]
            ws = books[book][BOOK][sheet]
            val = r.value
            for a in range(val.shape[0]):
                for b in range(val.shape[1]):
                    cell = ws.cell(row=int(rng['r1']) + a, column=rng['n1'] + b)
                    written.add((book, sheet, cell.coordinate))
                    if not same(cell.value, expected_cell(val[a, b])):
                        return False     # every solved cell at its own sheet and coordinates
                    if cell.data_type == 'f':
                        return False     # a solved value is written as a value (text starting with '=' too)
        if how == 1:                     # cells outside the solution are untouched
            wb = books['B.XLSX'][BOOK]
            if wb['S']['Z9'].value != 'keep' or wb['OTHER']['A1'].value != 42:
                return False
        # nothing else was written
        for book, v in books.items():
            for ws in v[BOOK].worksheets:
                for row in ws.iter_rows():
                    for c in row:
                        if c.value is not None and (book, ws.title, c.coordinate) not in written:
                            if not (how == 1 and (ws.title, c.coordinate) in (('S', 'Z9'), ('OTHER', 'A1'))):
                                return False
        return True
    finally:
        if tmp:
            shutil.rmtree(tmp, ignore_errors=True)


def write_ok(i0: bool, i1: bool, i2: bool, j0: bool, j1: bool, j2: bool, k0: bool, k1: bool, k2: bool, h0: bool, h1: bool) -> bool:
    """
    pre: sel(h0, h1) < 3 and sel(h0, h1) == HOW
    post: _
    """
    return concrete(_write, sel(i0, i1, i2), sel(j0, j1, j2), sel(k0, k1, k2), sel(h0, h1))


HOW = __HOW__

"""Outcome tables across interpreter hash seeds (C10 / C03 workbook level).

A harness copy that runs under PYTHONHASHSEED != 0 compares the outcome of every
workbook it explores, cell by cell, with the outcome computed by a CHILD interpreter
started under PYTHONHASHSEED=0 on the same harness file (the child evaluates the
harness's `all_outcomes()` once and prints it as JSON)."""
import json
import os
import subprocess
import sys

_REF = {}
MARK = '@@HASHREF@@'


def child_mode(file):
    return os.environ.get('HASHREF_TABLE') == os.path.abspath(file)


def emit(table):
    sys.stdout.write(MARK + json.dumps(table) + MARK)
    sys.stdout.flush()


def reference(file):
    """{key: outcome} computed under PYTHONHASHSEED=0, or None when this process itself runs under seed 0"""
    if os.environ.get('PYTHONHASHSEED', '0') == '0':
        return None
    file = os.path.abspath(file)
    if file not in _REF:
        env = dict(os.environ, PYTHONHASHSEED='0', HASHREF_TABLE=file)
        p = subprocess.run([sys.executable, file], env=env, capture_output=True, text=True, timeout=900)
        if MARK not in p.stdout:
            raise RuntimeError('hash-seed reference child failed: ' + (p.stderr or p.stdout)[-500:])
        _REF[file] = json.loads(p.stdout.split(MARK)[1])
    return _REF[file]


def reorder(d, order):
    keys = list(d)
    if order == 1:
        keys = keys[::-1]
    elif order == 2:
        keys = sorted(keys)
    elif order == 3:
        keys = keys[1::2] + keys[0::2]
    return {k: d[k] for k in keys}

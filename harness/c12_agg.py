# C12 harness (tier S part): aggregations over a referenced range plus a directly
# typed argument.  Elements and arguments are boolean selectors over pools; numpy
# does the arithmetic, so every path runs the registered functions natively.
from vlib.stubs import apply_common
apply_common()
from vlib.sel import sel, concrete
import math
import statistics
import numpy as np
import schedula as sh
from formulas.functions import get_functions, Error
from formulas.tokens.operand import XlError

F = get_functions()
E = Error.errors
VALUE, DIV, NUMERR = E['#VALUE!'], E['#DIV/0!'], E['#NUM!']
RP = [2, 5, -1.5, 'x', True, False, sh.EMPTY, 0]          # what a referenced cell may hold
DP = [None, 3, True, '4', 'x', 0.5]                       # what may be typed directly (None = absent)
FN = __FN__            # function under test, fixed per generated copy


def scal(v):
    v = np.ravel(v)[0] if isinstance(v, np.ndarray) else v
    return float(v) if isinstance(v, (np.floating, np.integer)) else v


def direct_num(d):
    if isinstance(d, bool):
        return 1.0 if d else 0.0
    if isinstance(d, str):
        return float(d)          # ValueError for non-numeric text
    return float(d)


def spec(fn, r, d, k):
    """Excel: referenced logicals / text / blanks are skipped, typed logicals and numeric
    text count, typed non-numeric text is #VALUE!"""
    nums = [float(v) for v in r if isinstance(v, (int, float)) and not isinstance(v, bool)]
    if fn == 'COUNT':
        return len(nums) + (1 if d is not None and not (isinstance(d, str) and d == 'x') else 0)
    if fn == 'COUNTA':
        return sum(1 for v in r if v is not sh.EMPTY) + (1 if d is not None else 0)
    if fn == 'COUNTBLANK':
        return sum(1 for v in r if v is sh.EMPTY)
    if fn in ('LARGE', 'SMALL'):
        if not 1 <= k <= len(nums):
            return NUMERR
        s = sorted(nums, reverse=(fn == 'LARGE'))
        return s[k - 1]
    if d is not None:
        try:
            nums.append(direct_num(d))
        except ValueError:
            return VALUE
    if fn == 'SUM':
        return sum(nums)
    if fn == 'SUMSQ':
        return sum(v * v for v in nums)
    if fn == 'PRODUCT':
        return math.prod(nums) if nums else 0.0
    if fn == 'AVERAGE':
        return sum(nums) / len(nums) if nums else DIV
    if fn == 'MIN':
        return min(nums) if nums else 0.0
    if fn == 'MAX':
        return max(nums) if nums else 0.0
    if fn == 'MEDIAN':
        return statistics.median(nums) if nums else NUMERR
    raise ValueError(fn)


def _agg(i, j, k, di, kk):
    r = [RP[i], RP[j], RP[k]]
    d = DP[di]
    want = spec(FN, r, d, kk)
    for rot in range(3):                    # the order of the referenced cells does not matter
        rr = r[rot:] + r[:rot]
        rng = np.asarray([rr], object)
        if FN in ('LARGE', 'SMALL'):
            got = scal(F[FN](rng, kk))
        elif FN == 'COUNTBLANK' or d is None:
            got = scal(F[FN](rng))
        else:
            got = scal(F[FN](rng, d)) if rot % 2 == 0 else scal(F[FN](d, rng))
        if isinstance(want, XlError):
            if got is not want:
                return False
        elif isinstance(got, XlError) or isinstance(got, bool) or abs(float(got) - float(want)) > 1e-9:
            return False
    return True


def agg_ok(i0: bool, i1: bool, i2: bool, j0: bool, j1: bool, j2: bool, k0: bool, k1: bool, k2: bool,
           d0: bool, d1: bool, d2: bool, q0: bool, q1: bool) -> bool:
    """
    pre: sel(d0, d1, d2) < len(DP)
    pre: sel(i0, i1, i2) <= sel(j0, j1, j2) <= sel(k0, k1, k2)
    post: _
    """
    return concrete(_agg, sel(i0, i1, i2), sel(j0, j1, j2), sel(k0, k1, k2), sel(d0, d1, d2), 1 + sel(q0, q1))

# C02 harness (Engine A): comparisons, concatenation and the '^' dispatch on the
# real safe_eval closures.  Operand VALUES are symbolic (int | bool | short str);
# operand KINDS from the concrete pool are boolean selectors.
from typing import Union
from vlib.stubs import apply_common
apply_common()
from vlib.sel import sel
import math
import schedula as sh
import formulas.functions as F
from formulas.functions.operators import OPERATORS, LOGIC_OPERATORS
from formulas.tokens.operand import XlError

ERR = F.Error.errors
DIV, NUM, VALUE = ERR['#DIV/0!'], ERR['#NUM!'], ERR['#VALUE!']


def closure_of(f, name):
    w = f
    while hasattr(w, '__wrapped__'):
        w = w.__wrapped__
        if getattr(w, '__closure__', None):
            for c, n in zip(w.__closure__, w.__code__.co_freevars):
                if n == name:
                    return c.cell_contents
    raise LookupError(name)


SE = {k: closure_of(OPERATORS[k], 'safe_eval') for k in list(LOGIC_OPERATORS) + ['&', '^']}
AP = {k: closure_of(OPERATORS[k], 'args_parser') for k in SE}


def call(op, x, y):
    return SE[op](*AP[op](x, y))


def rank(v):
    # "the six comparisons agree with one total order in which numbers < text < logicals"
    return 2 if isinstance(v, bool) else 1 if isinstance(v, str) else 0


def key(v):
    return (rank(v), v.upper() if isinstance(v, str) else v)


def short(v):
    # text operands: ASCII, at most 2 characters (stated bound)
    return not isinstance(v, str) or (len(v) <= 2 and v.isascii())


def _total(x, y):
    lt, gt, eq = call('<', x, y), call('>', x, y), call('=', x, y)
    le, ge, ne = call('<=', x, y), call('>=', x, y), call('<>', x, y)
    ok = all(isinstance(v, bool) for v in (lt, gt, eq, le, ge, ne))
    ok = ok and (lt + gt + eq == 1) and le == (lt or eq) and ge == (gt or eq) and ne == (not eq)
    return ok and lt == (key(x) < key(y)) and eq == (key(x) == key(y))


ALPHA = 'aAbZz0 _'


def small(s):
    return len(s) <= 2 and all(ch in ALPHA for ch in s)


def cmp_total_nn_ok(x: int, y: int) -> bool:
    """
    post: _
    """
    return _total(x, y)


def cmp_total_nb_ok(x: Union[int, bool], y: bool) -> bool:
    """
    post: _
    """
    return _total(x, y) and _total(y, x)


def cmp_total_ns_ok(x: Union[int, bool], y: str) -> bool:
    """
    pre: small(y)
    post: _
    """
    return _total(x, y) and _total(y, x)


A4 = 'aAb0'


def pick(n0, n1, c0, c1, d0, d1):
    """text of length 0..2 over the alphabet a A b 0, spelled by boolean selectors"""
    n = sel(n0, n1)
    return (A4[sel(c0, c1)] + A4[sel(d0, d1)])[:n]


def cmp_total_ss_ok(n0: bool, n1: bool, c0: bool, c1: bool, d0: bool, d1: bool,
                    m0: bool, m1: bool, e0: bool, e1: bool, f0: bool, f1: bool) -> bool:
    """
    pre: sel(n0, n1) < 3 and sel(m0, m1) < 3
    post: _
    """
    # text against text (selectors: all 21 x 21 strings of length <= 2 over a A b 0)
    return _total(pick(n0, n1, c0, c1, d0, d1), pick(m0, m1, e0, e1, f0, f1))


def cmp_total_s1_ok(x: str, y: str) -> bool:
    """
    pre: len(x) <= 1 and len(y) <= 1 and x.isascii() and y.isascii()
    post: _
    """
    # text against text, any ASCII character, length <= 1 (symbolic)
    return _total(x, y)


def cmp_blank_ok(x: Union[int, bool, str], left: bool) -> bool:
    """
    pre: short(x)
    post: _
    """
    # a blank operand compares as 0 against numbers/logicals and as "" against text
    b = '' if isinstance(x, str) else 0
    for op in ('<', '>', '=', '<=', '>=', '<>'):
        got = call(op, sh.EMPTY, x) if left else call(op, x, sh.EMPTY)
        want = call(op, b, x) if left else call(op, x, b)
        if got is not want:
            return False
    return call('=', sh.EMPTY, sh.EMPTY) is True


ERRS = [ERR[k] for k in ('#NULL!', '#DIV/0!', '#VALUE!', '#REF!', '#NUM!', '#NAME?', '#N/A')]
ALLOPS = ['<', '>', '=', '<=', '>=', '<>', '&', '^']


def cmp_error_ok(x: Union[int, bool, str], e0: bool, e1: bool, e2: bool, f0: bool, f1: bool, f2: bool,
                 o0: bool, o1: bool, o2: bool, pos: int) -> bool:
    """
    pre: short(x) and sel(e0, e1, e2) < 7 and sel(f0, f1, f2) < 7 and 0 <= pos < 3
    post: _
    """
    # the left-most error operand is returned unchanged (same object), for every operator
    e, f, op = ERRS[sel(e0, e1, e2)], ERRS[sel(f0, f1, f2)], ALLOPS[sel(o0, o1, o2)]
    if pos == 0:
        return call(op, e, x) is e
    if pos == 1:
        return call(op, x, e) is e
    return call(op, e, f) is e


def disp(v):
    # "& joins the display forms": TRUE/FALSE, integer-valued numbers without ".0", blank as ""
    if v is sh.EMPTY:
        return ''
    if isinstance(v, bool):
        return 'TRUE' if v else 'FALSE'
    if isinstance(v, float) and v == int(v):
        return str(int(v))          # -0.0 shows as 0
    return str(v)


NUMS = [0, 1, -1, 7, 2.5, -0.5, 3.0, 1e+20, sh.EMPTY, -0.0, 0.1 + 0.2, 1e-7]


def concat_ok(x: Union[bool, str], n0: bool, n1: bool, n2: bool, n3: bool, left: bool) -> bool:
    """
    pre: short(x) and sel(n0, n1, n2, n3) < len(NUMS)
    post: _
    """
    n = NUMS[sel(n0, n1, n2, n3)]
    r = call('&', n, x) if left else call('&', x, n)
    want = disp(n) + disp(x) if left else disp(x) + disp(n)
    return isinstance(r, str) and r == want


def concat_str_ok(x: Union[bool, str], y: Union[bool, str]) -> bool:
    """
    pre: short(x) and short(y)
    post: _
    """
    r = call('&', x, y)
    return isinstance(r, str) and r == disp(x) + disp(y)


POW = [0, 0.0, 1, -1, 2, -2, 0.5, -0.5, -8, 1 / 3, 10, 1e200, -1e200, 1e-200, 400, True, False, '2', ' 3 ', 'abc', '',
       sh.EMPTY]


def pow_spec(a, b):
    def num(v):
        if v is sh.EMPTY:
            return 0.0
        if isinstance(v, bool):
            return 1.0 if v else 0.0
        if isinstance(v, str):
            return float(v)         # ValueError for non-numeric text
        return float(v)
    try:
        a, b = num(a), num(b)
    except ValueError:
        return VALUE
    if a == 0 and b < 0:
        return DIV
    try:
        r = a ** b
    except OverflowError:
        return NUM
    if isinstance(r, complex) or not math.isfinite(r):
        return NUM
    return r


def power_ok(a0: bool, a1: bool, a2: bool, a3: bool, a4: bool, b0: bool, b1: bool, b2: bool, b3: bool, b4: bool) -> bool:
    """
    pre: sel(a0, a1, a2, a3, a4) < len(POW) and sel(b0, b1, b2, b3, b4) < len(POW)
    post: _
    """
    # '^' (no SMT theory of pow): operand pairs are selectors over a boundary pool
    a, b = POW[sel(a0, a1, a2, a3, a4)], POW[sel(b0, b1, b2, b3, b4)]
    r = call('^', a, b)
    want = pow_spec(a, b)
    if isinstance(want, XlError):
        return r is want
    return isinstance(r, float) and math.isfinite(r) and r == want

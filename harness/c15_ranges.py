# C15 harness (tier S): a model loaded from chosen outputs equals the fully loaded
# workbook on them.  The workbook (real .xlsx files written by the harness), the constants
# in it and the set of requested outputs are boolean selectors; every path loads and
# calculates the real models natively.
from vlib.stubs import apply_common
apply_common()
from vlib.sel import sel, concrete
import copy
import gc
import logging
import os
import shutil
import tempfile
import numpy as np
import schedula as sh
import openpyxl
from openpyxl.worksheet.formula import ArrayFormula
from openpyxl.workbook.defined_name import DefinedName
import formulas
from formulas.tokens.operand import XlError

logging.disable(logging.CRITICAL)
WORK = (os.environ.get('VERIF_OUT') or '/verif') + '/.work'
VALS = [5, -1.5, 0, 2, 'x', True, 40, 1]
FIX_A = __FIX_A__          # index of DATA!A1's value, fixed per generated copy
WHOLE = '__WHOLE__'        # whole-column or whole-row references (sheet limits differ between the two workbooks)


def make_book(path, a1, a2):
    wb = openpyxl.Workbook()
    d = wb.active
    d.title = 'DATA'
    d['A1'], d['A2'], d['A3'] = a1, a2, 2
    d['B1'] = '=A1+A2'
    if WHOLE == 'col':
        d['B2'] = '=SUM(A:A)'                    # whole column (a million cells: few paths only)
    else:
        for i in range(10):
            d.cell(row=5, column=1 + i, value=i + 1)
        d['B2'] = '=SUM(5:5)+SUM(A1:A3)'         # whole row
    d['B3'] = '=CALC!A1*2'                       # other sheet, which refers back to this one
    d['B4'] = '=RATE*10'                         # defined name
    d['C1'] = ArrayFormula('C1:C2', '=A1:A2*2')  # array formula, two cells
    d['D1'] = '=C2+1'                            # a cell of the spilled array
    d['E1'] = '=SUM(C1:C2,B1)'
    d['F1'] = '=SUM(B2:C2)'                      # a rectangle that overlaps the spill without its anchor
    d['F2'] = '=SUM(C2:D3)'
    c = wb.create_sheet('CALC')
    c['A1'] = '=DATA!B1+1'
    c['A2'] = '=SUM(DATA!A1:A3)'
    c['A3'] = '=IF(DATA!A1>1,DATA!B4,0)'
    c['A4'] = 5
    c['A5'] = '=A4*2'
    c['A6'] = '=A5&DATA!A2'
    c['B1'] = '=MAX(DATA!2:2)'                   # whole row
    wb.defined_names['RATE'] = DefinedName('RATE', attr_text='DATA!$A$3')
    wb.save(path)


def make_book2(path, a1):
    # a second workbook whose sheet has the SAME title and fewer rows / columns in use
    wb = openpyxl.Workbook()
    d = wb.active
    d.title = 'DATA'
    d['A1'], d['A2'] = a1, 1
    if WHOLE == 'col':
        d['B1'] = '=SUM(A:A)'
    else:
        d['A5'], d['B5'] = 3, a1
        d['B1'] = '=SUM(5:5)'
    d['B2'] = '=COUNT(1:1)'
    wb.save(path)


OUTS = ["'[%s]DATA'!B1", "'[%s]DATA'!B2", "'[%s]DATA'!B3", "'[%s]DATA'!B4", "'[%s]DATA'!D1", "'[%s]DATA'!E1",
        "'[%s]CALC'!A2", "'[%s]CALC'!A3", "'[%s]CALC'!A6", "'[%s]CALC'!B1", "'[%s]DATA'!C1:C2",
        "'[%s]DATA'!F1", "'[%s]DATA'!F2", "'[book2.xlsx]DATA'!B1", "'[book2.xlsx]DATA'!B2"]


def norm(v):
    v = v.value if hasattr(v, 'value') else v
    out = []
    for x in np.ravel(np.asarray(v, object)).tolist():
        if isinstance(x, XlError):
            out.append(str(x))
        elif x is sh.EMPTY:
            out.append('EMPTY')
        elif isinstance(x, (bool, np.bool_)):
            out.append(('b', bool(x)))
        elif isinstance(x, (int, float, np.number)):
            out.append(round(float(x), 9))
        else:
            out.append(('s', x))
    return out


def _ranges(j, mask):
    os.makedirs(WORK, exist_ok=True)
    tmp = tempfile.mkdtemp(prefix='c15-', dir=WORK)
    cwd = os.getcwd()
    try:
        os.chdir(tmp)
        make_book('book1.xlsx', VALS[FIX_A], VALS[j])
        make_book2('book2.xlsx', VALS[j])
        full = formulas.ExcelModel().loads('book1.xlsx', 'book2.xlsx').finish()
        sol = full.calculate()
        outs = [(o % 'book1.xlsx' if '%s' in o else o) for b, o in enumerate(OUTS) if mask >> b & 1]
        if mask >> 15 & 1:
            outs = outs[::-1]               # the order of the request does not matter
        part = formulas.ExcelModel().from_ranges(*outs).finish()
        psol = part.calculate()
        for o in outs:
            if o not in psol or o not in sol or norm(psol[o]) != norm(sol[o]):
                return False                # exactly the values the fully loaded workbook computes
        # completing / finishing an already complete model changes neither structure nor results
        nodes = set(part.dsp.nodes)
        part.complete()
        part.finish()
        if set(part.dsp.nodes) != nodes:
            return False
        again = part.calculate()
        if not all(norm(again[o]) == norm(psol[o]) for o in outs):
            return False
        # ... also for a copy of the partial model (restored without its cells and books)
        twin = copy.deepcopy(part)
        twin.finish()
        if set(twin.dsp.nodes) != nodes:
            return False
        tsol = twin.calculate()
        return all(norm(tsol[o]) == norm(psol[o]) for o in outs)
    finally:
        os.chdir(cwd)
        shutil.rmtree(tmp, ignore_errors=True)
        gc.collect()


def ranges_ok(j0: bool, j1: bool, j2: bool, m0: bool, m1: bool, m2: bool, m3: bool, m4: bool) -> bool:
    """
    pre: sel(m0, m1, m2, m3, m4) < len(MASKS)
    post: _
    """
    # MASKS[.]: bit b = output b is requested, bit 15 = the request is made in reverse order
    return concrete(_ranges, sel(j0, j1, j2), MASKS[sel(m0, m1, m2, m3, m4)])


MASKS = __MASKS__

# C15 harness (tier S): a model loaded from chosen outputs equals the fully loaded
# workbook on them.  The workbook (real .xlsx files written by the harness), the constants
# in it and the set of requested outputs are boolean selectors; every path loads and
# calculates the real models natively.
from vlib.stubs import apply_common
apply_common()
from vlib.sel import sel, concrete
import copy
import gc
import logging
import os
import shutil
import tempfile
import numpy as np
import schedula as sh
import openpyxl
from openpyxl.worksheet.formula import ArrayFormula
from openpyxl.workbook.defined_name import DefinedName
import formulas
from formulas.tokens.operand import XlError
import books

logging.disable(logging.CRITICAL)
WORK = (os.environ.get('VERIF_OUT') or '/verif') + '/.work'
VALS = [5, -1.5, 0, 2, 'x', True, 40, 1]
FIX_A = __FIX_A__          # index of DATA!A1's value, fixed per generated copy
WHOLE = '__WHOLE__'        # whole-column or whole-row references (sheet limits differ between the two workbooks)


OUTS = ["'[%s]DATA'!B1", "'[%s]DATA'!B2", "'[%s]DATA'!B3", "'[%s]DATA'!B4", "'[%s]DATA'!D1", "'[%s]DATA'!E1",
        "'[%s]CALC'!A2", "'[%s]CALC'!A3", "'[%s]CALC'!A6", "'[%s]CALC'!B1", "'[%s]DATA'!C1:C2",
        "'[%s]DATA'!F1", "'[%s]DATA'!F2", "'[book2.xlsx]DATA'!B1", "'[book2.xlsx]DATA'!B2",
        "'[%s]CALC'!C1", "'[book2.xlsx]DATA'!C1", "'[book2.xlsx]DATA'!C2",       # cross-workbook references, both ways
        "'[%s]CALC'!C3",                                                        # through a sheet titled O'B %
        "'[%s]CALC'!C4"]                                                        # a cell of book2 that uses book2's own defined name
NOUT = len(OUTS)


def norm(v):
    v = v.value if hasattr(v, 'value') else v
    out = []
    for x in np.ravel(np.asarray(v, object)).tolist():
        if isinstance(x, XlError):
            out.append(str(x))
        elif x is sh.EMPTY:
            out.append('EMPTY')
        elif isinstance(x, (bool, np.bool_)):
            out.append(('b', bool(x)))
        elif isinstance(x, (int, float, np.number)):
            out.append(round(float(x), 9))
        else:
            out.append(('s', x))
    return out


def _ranges(j, mask):
    os.makedirs(WORK, exist_ok=True)
    tmp = tempfile.mkdtemp(prefix='c15-', dir=WORK)
    cwd = os.getcwd()
    try:
        os.chdir(tmp)
        books.write_files(VALS[FIX_A], VALS[j], WHOLE)
        full = formulas.ExcelModel().loads('book1.xlsx', 'book2.xlsx').finish()
        sol = full.calculate()
        outs = [(o % 'book1.xlsx' if '%s' in o else o) for b, o in enumerate(OUTS) if mask >> b & 1]
        if mask >> NOUT & 1:
            outs = outs[::-1]               # the order of the request does not matter
        part = formulas.ExcelModel().from_ranges(*outs).finish()
        psol = part.calculate()
        for o in outs:
            if o not in psol or o not in sol or norm(psol[o]) != norm(sol[o]):
                return False                # exactly the values the fully loaded workbook computes
        # completing / finishing an already complete model changes neither structure nor results
        nodes = set(part.dsp.nodes)
        part.complete()
        part.finish()
        if set(part.dsp.nodes) != nodes:
            return False
        again = part.calculate()
        if not all(norm(again[o]) == norm(psol[o]) for o in outs):
            return False
        # ... also for a copy of the partial model (restored without its cells and books)
        twin = copy.deepcopy(part)
        twin.finish()
        if set(twin.dsp.nodes) != nodes:
            return False
        tsol = twin.calculate()
        return all(norm(tsol[o]) == norm(psol[o]) for o in outs)
    finally:
        os.chdir(cwd)
        shutil.rmtree(tmp, ignore_errors=True)
        gc.collect()


def ranges_ok(j0: bool, j1: bool, j2: bool, m0: bool, m1: bool, m2: bool, m3: bool, m4: bool) -> bool:
    """
    pre: sel(m0, m1, m2, m3, m4) < len(MASKS)
    post: _
    """
    # MASKS[.]: bit b = output b is requested, bit NOUT = the request is made in reverse order
    return concrete(_ranges, sel(j0, j1, j2), MASKS[sel(m0, m1, m2, m3, m4)])


MASKS = __MASKS__

"""concrete side of the C02 spec, used by replay scripts (plain interpreter, real code)"""
import math
import schedula as sh
import formulas.functions as F
from formulas.tokens.operand import XlError

ERR = F.Error.errors
DIV, NUM, VALUE = ERR['#DIV/0!'], ERR['#NUM!'], ERR['#VALUE!']
ERRORS = [ERR[k] for k in ('#NULL!', '#DIV/0!', '#VALUE!', '#REF!', '#NUM!', '#NAME?', '#N/A')]
POOL = {
    'zero': 0.0, 'one': 1.0, 'mone': -1.0, 'half': 0.5, 'big': 1e200, 'tiny': 1e-200, 'int': 7,
    'true': True, 'false': False, 'numtext': '7', 'padtext': ' 2.5 ', 'exptext': '1e3', 'text': 'abc', 'emptytext': '',
    'blank': sh.EMPTY,
    'e_null': ERRORS[0], 'e_div': ERRORS[1], 'e_value': ERRORS[2], 'e_ref': ERRORS[3], 'e_num': ERRORS[4],
    'e_name': ERRORS[5], 'e_na': ERRORS[6],
}


def num(v):
    if v is sh.EMPTY:
        return 0.0
    if isinstance(v, bool):
        return 1.0 if v else 0.0
    return float(v)


def concrete_spec(op, vals):
    for v in vals:
        if isinstance(v, XlError):
            return v
    if op == 'U+':
        return 0 if vals[0] is sh.EMPTY else vals[0]
    try:
        xs = [num(v) for v in vals]
    except ValueError:
        return VALUE
    try:
        if op == '+': r = xs[0] + xs[1]
        elif op == '-': r = xs[0] - xs[1]
        elif op == '*': r = xs[0] * xs[1]
        elif op == '/':
            if xs[1] == 0: return DIV
            r = xs[0] / xs[1]
        elif op == '%': r = xs[0] / 100.0
        elif op == 'U-': r = -xs[0]
    except OverflowError:
        return NUM
    return r if math.isfinite(r) else NUM

# C04 harness (tier S): every A1 spelling of a rectangle - corners over boundary columns and rows, $ markers,
# letter case - is read by the real tokenizer as ONE reference token that names exactly that rectangle.
from vlib.stubs import apply_common
apply_common()
from vlib.sel import sel, concrete
import formulas
from formulas.tokens.operand import Range

COLS = ['A', 'B', 'Z', 'AA', 'AZ', 'ZZ', 'AAA', 'XFD']      # increasing
ROWS = ['1', '2', '9', '10', '99', '100', '65536', '1048576']  # increasing
P = formulas.Parser()


def _token(c1, c2, r1, r2, dollars, lower):
    if c1 > c2 or r1 > r2:
        return True
    C1, C2, R1, R2 = COLS[c1], COLS[c2], ROWS[r1], ROWS[r2]
    d = ['$' if dollars >> k & 1 else '' for k in range(4)]
    text = '%s%s%s%s:%s%s%s%s' % (d[0], C1, d[1], R1, d[2], C2, d[3], R2)
    if lower:
        text = text.lower()
    try:
        tokens = P.ast('=' + text)[0]
    except Exception:
        return False
    if len(tokens) != 1 or not isinstance(tokens[0], Range):
        return False                         # one reference token, not a name, an operator and a cell
    want = '%s%s' % (C1, R1) if (C1, R1) == (C2, R2) else '%s%s:%s%s' % (C1, R1, C2, R2)
    return tokens[0].name == want            # that names exactly this rectangle


DOLLARS = __D__      # which of the four $ markers are written, fixed per generated copy


def token_ok(a0: bool, a1: bool, a2: bool, b0: bool, b1: bool, b2: bool, r0: bool, r1: bool, r2: bool, s0: bool, s1: bool, s2: bool,
             lower: bool) -> bool:
    """
    pre: sel(a0, a1, a2) <= sel(b0, b1, b2) and sel(r0, r1, r2) <= sel(s0, s1, s2)
    post: _
    """
    return concrete(_token, sel(a0, a1, a2), sel(b0, b1, b2), sel(r0, r1, r2), sel(s0, s1, s2), DOLLARS, True if lower else False)

# C04 harness: sheet / workbook identifiers and relative references.  Names,
# offsets and host cells are boolean selectors (the reference regex is a C
# extension: symbolic text would be realised anyway).
from vlib.stubs import apply_common
apply_common()
from vlib.sel import sel
import formulas.tokens.operand as O
from formulas.ranges import Ranges

ALPHA = ['a', 'B', '1', ' ', "'", '-', '.', '!']
FIRST = __FIRST__          # index of the first character, fixed per generated copy
HOST = __HOST__            # index of the host cell (relative_ok), fixed per generated copy


def name_of(n0, n1, c0, c1, c2, d0, d1, d2):
    n = 1 + sel(n0, n1)
    return (ALPHA[FIRST] + ALPHA[sel(c0, c1, c2)] + ALPHA[sel(d0, d1, d2)])[:n]


def plain(name):
    return (name[0].isalpha() or name[0] == '_') and all(ch.isalnum() or ch in '._' for ch in name)


def sheet_id_ok(n0: bool, n1: bool, c0: bool, c1: bool, c2: bool, d0: bool, d1: bool, d2: bool, book: bool, num: bool) -> bool:
    """
    pre: sel(n0, n1) < 3
    pre: not (num and not book)
    post: _
    """
    name = name_of(n0, n1, c0, c1, c2, d0, d1, d2)
    if name != name.strip():
        return True                      # Excel does not allow leading / trailing blanks... kept out of the claim
    kw = {'sheet': name.replace("'", "''")}          # as the regex captures it (apostrophes doubled)
    if book:
        kw['filename'] = '3' if num else 'Bk.xlsx'
    sid = O._build_sheet_id(**kw)
    # (a) the canonical id reads back to itself
    r = Ranges.get_range(sid + '!A1')
    if r['sheet_id'] != sid or r['name'] != sid + '!A1':
        return False
    # (b) every spelling Excel accepts gives the same id: quoted, and - for plain names - bare and lower case
    if not book:
        q = Ranges.get_range("'%s'!a1" % name.replace("'", "''"))
        if q['sheet_id'] != sid or q['name'] != r['name']:
            return False
        if plain(name):
            for text in (name + '!A1', name.lower() + '!$A$1', name.upper() + '!R1C1'):
                if Ranges.get_range(text)['name'] != r['name']:
                    return False
    else:
        pre = '[3]' if num else '[Bk.xlsx]'
        q = Ranges.get_range("'%s%s'!A1" % (pre, name.replace("'", "''")))
        if q['name'] != r['name']:
            return False
    # (c) different sheets never share an id: the id still spells the (upper-cased) name
    core = sid
    if core.startswith("'") and core.endswith("'"):
        core = core[1:-1].replace("''", "'")
    if book:
        core = core.split(']', 1)[1]
    return core == name.upper()


HOSTS = [(3, 3), (2, 5), (7, 2), (4, 9)]
DRDC = __DRDC__
OFFS = [-1, 1, 2]


def rel(n):
    return '[%d]' % n


def relative_ok(a0: bool, a1: bool, b0: bool, b1: bool, dr: bool, dc: bool) -> bool:
    """
    pre: sel(a0, a1) < 3 and sel(b0, b1) < 3
    pre: (dr, dc) == DRDC
    post: _
    """
    # R[..]C[..] offsets from the host cell resolve to the same identifier as the A1 spelling
    cr, cc = HOSTS[HOST]
    rr1, rc1 = OFFS[sel(a0, a1)], OFFS[sel(b0, b1)]
    rr2, rc2 = rr1 + (1 if dr else 0), rc1 + (2 if dc else 0)
    ctx = {'cr': str(cr), 'cc': str(cc)}
    r1, n1, r2, n2 = cr + rr1, cc + rc1, cr + rr2, cc + rc2
    a1 = '%s%d:%s%d' % (O._index2col(n1), r1, O._index2col(n2), r2)
    want = Ranges.get_range(a1)['name']
    if dr or dc:
        if rr2 == 0 or rc2 == 0:
            return True                  # R[0] / C[0] has no bracket spelling
        text = 'R%sC%s:R%sC%s' % (rel(rr1), rel(rc1), rel(rr2), rel(rc2))
    else:
        text = 'R%sC%s' % (rel(rr1), rel(rc1))
    got = Ranges.get_range(text, ctx)
    ok = got['name'] == want and (int(got['n1']), int(got['n2'])) == (n1, n2) and \
        (int(float(got['r1'])), int(float(got['r2']))) == (r1, r2)
    # whole rows / whole columns relative to the host
    rows = Ranges.get_range('R%s:R%s' % (rel(rr1), rel(rr1 + 1)), ctx) if rr1 + 1 else None
    cols = Ranges.get_range('C%s:C%s' % (rel(rc1), rel(rc1 + 1)), ctx) if rc1 + 1 else None
    if rows is not None:
        ok = ok and rows['name'] == Ranges.get_range('%d:%d' % (r1, r1 + 1))['name']
    if cols is not None:
        ok = ok and cols['name'] == Ranges.get_range('%s:%s' % (O._index2col(n1), O._index2col(n1 + 1)))['name']
    return ok

# C10 harness (Engine A).  (a) elementary-cycle enumeration on every small
# digraph (adjacency = boolean arguments), (b) lazy-branch predicates,
# (c) workbooks built from a dependency ring with guarded / unguarded edges
# (tier S: every variable is a selector).
from vlib.stubs import apply_common
apply_common()
from vlib.sel import sel, concrete
import itertools
from formulas.excel.cycle import simple_cycles
from formulas.functions import get_functions

FIX = __FIX__            # partition constant (meaning depends on the condition)


def canon(cyc):
    i = cyc.index(min(cyc))
    return tuple(cyc[i:] + cyc[:i])


def reference_cycles(n, edge, skip=()):
    """every elementary cycle = vertex sequence (smallest vertex first) whose consecutive
    edges, including the closing one, are all present"""
    out = []
    nodes = [v for v in range(n) if v not in skip]
    for k in range(1, len(nodes) + 1):
        for sub in itertools.combinations(nodes, k):
            first, rest = sub[0], sub[1:]
            for perm in itertools.permutations(rest):
                seq = (first,) + perm
                if all(edge(seq[i], seq[(i + 1) % k]) for i in range(k)):
                    out.append(seq)
    return sorted(out)


def cycles3_ok(e00: bool, e01: bool, e02: bool, e10: bool, e11: bool, e12: bool, e20: bool, e21: bool, e22: bool,
               s0: bool, s1: bool, s2: bool) -> bool:
    """
    post: _
    """
    # all 512 digraphs on 3 nodes (self-loops included) x every skip set
    E = [[True if x else False for x in row] for row in ([e00, e01, e02], [e10, e11, e12], [e20, e21, e22])]
    skip = tuple(i for i, s in enumerate((s0, s1, s2)) if s)

    def run():
        g = {i: [j for j in range(3) if E[i][j]] for i in range(3)}
        got = sorted(canon(list(c)) for c in simple_cycles(g, skip_nodes=skip))
        return got == reference_cycles(3, lambda a, b: E[a][b], skip)
    return concrete(run)


def cycles4_ok(e01: bool, e02: bool, e03: bool, e10: bool, e12: bool, e13: bool, e20: bool, e21: bool, e23: bool,
               e30: bool, e31: bool, e32: bool) -> bool:
    """
    pre: sel(e01, e02, e03) == FIX
    post: _
    """
    # all 4096 loop-free digraphs on 4 nodes, partitioned by the first row
    E = [[True if x else False for x in row] for row in
         ([False, e01, e02, e03], [e10, False, e12, e13], [e20, e21, False, e23], [e30, e31, e32, False])]

    def run():
        g = {i: [j for j in range(4) if E[i][j]] for i in range(4)}
        got = sorted(canon(list(c)) for c in simple_cycles(g))
        return got == reference_cycles(4, lambda a, b: E[a][b])
    return concrete(run)


F = get_functions()


def lazy_predicates_ok(c: bool, x: bool, y: bool, c2: bool, v2: bool) -> bool:
    """
    post: _
    """
    # solve_cycle(in_cycle flags of the arguments): a cycle through IF/IFERROR/IFNA may be cut
    # exactly when the tested argument itself is outside the cycle; for IFS when no condition is inside
    ok = all(F[k]['solve_cycle'](c, x, y) == (not c) for k in ('IF', 'IFERROR', 'IFNA'))
    return ok and F['IFS']['solve_cycle'](c, x, c2, v2) == (not (c or c2))

# C17 harness (tier S): copies and serialised models.  Template, kind of copy, the
# operations applied to original and copy (interleaved) and the observed override set
# are boolean selectors; every path runs the real code natively.
from vlib.stubs import apply_common
apply_common()
from vlib.sel import sel, concrete
import copy
import logging
import dill
import formulas
import models as M

logging.disable(logging.CRITICAL)
T = __T__
SETS = M.override_sets()
NS = len(SETS)
P = M.P


# cells whose nodes hold objects of the library's own classes in the copied state: an undefined
# name (an error constant kept as a Ranges), a constant array folded when the cell is compiled
# and spread over a larger range (an Array with its own default)
EXTRA = {P + 'L1': '=FOO+1', P + 'L2': '=IFERROR(FOO,%sA1)' % P, P + 'M1:O1': '={1,2}',
         P + 'M2': '=IF(ISNA(%sO1),%sN1,-1)' % (P, P), P + 'M3:N4': '={1,2;3,4}',
         # lookup functions (their type classifier used to cache an unpicklable ufunc at its first call)
         P + 'L3': '=MATCH(30,%sH1:H2,0)*10+VLOOKUP(1.5,%sH1:I2,2,FALSE)' % (P, P)}


def build():
    d = M.template(T)
    d.update(EXTRA)
    return formulas.ExcelModel().from_dict(d).finish(complete=False)


def clone(obj, kind):
    if kind == 0:
        return copy.deepcopy(obj)
    if kind == 1:
        return dill.loads(dill.dumps(obj))
    return copy.deepcopy(dill.loads(dill.dumps(copy.deepcopy(obj))))       # copy of a copy


def mutate(m, op, restored=False):
    """operations that may disturb shared state: the history operations of C07 plus re-finishing"""
    if op < M.NOPS:
        M.apply_op(m, op)
    elif op == M.NOPS:
        # finishing a complete model again.  A copy (restored without its `cells`) is completed as well; the
        # original dictionary model has no workbook file to complete its blank cells from (that is the open
        # finding C14-absent-range-overrides-known-cells), so it is finished without completion
        m.finish(complete=restored)
    else:
        m.calculate(inputs={P + 'A1': 77, M.BLOCK: [[9, 9], [9, 9]]})


NM = M.NOPS + 2


def _model(kind, op_a, op_b, first_a, k):
    """equivalence and independence of a model and its copy"""
    build().calculate()                 # some model has been calculated in this process before (process-wide caches are warm
    #                                     on every path and on replay alike)
    a = build()
    if first_a:
        mutate(a, op_a)                 # the copy is taken from a model that has a history
    b = clone(a, kind)
    label, inp = SETS[k]
    want = M.norm(build().calculate(inputs=inp))
    # interleave: operate on one, observe the other, and the other way round
    mutate(a, op_a)
    if M.norm(b.calculate(inputs=inp)) != want:
        return False
    mutate(b, op_b, restored=True)
    if M.norm(a.calculate(inputs=inp)) != want:
        return False
    return M.norm(b.calculate(inputs=inp)) == want


def model_copy_ok(c0: bool, c1: bool, a0: bool, a1: bool, a2: bool, a3: bool, b0: bool, b1: bool, b2: bool, b3: bool,
                  first: bool, k0: bool, k1: bool, k2: bool, k3: bool) -> bool:
    """
    pre: sel(c0, c1) < 3 and sel(a0, a1, a2, a3) == OPA and sel(b0, b1, b2, b3) < NM and sel(k0, k1, k2, k3) < NS
    post: _
    """
    return concrete(_model, sel(c0, c1), sel(a0, a1, a2, a3), sel(b0, b1, b2, b3), True if first else False, sel(k0, k1, k2, k3))


OPA = __OPA__
INPUTS = [[P + 'A1'], [P + 'A1', P + 'A2'], [M.NAME], [M.BLOCK]]
OUTS = [M.Q + 'A1', P + 'B2', P + 'C1', P + 'D1', P + 'J1', P + 'J2', P + 'L2', P + 'M2']


def _func(kind, i, a, b):
    """a compiled function and its copy: same results for all arguments, calls on one never
    change the other"""
    pl = M.pool()
    inputs = INPUTS[i]

    def args(x, y):
        v = [pl[x], pl[y]][:len(inputs)]
        if inputs[0] == M.BLOCK:
            v[0] = [[pl[x], pl[y]], [pl[y], 3]]
        return v
    f = build().compile(inputs, OUTS)
    f(*args(b, a))                                   # the original has been called before it is copied
    g = clone(f, kind)
    ref = build().compile(inputs, OUTS)

    def res(fn, x, y):
        return [M.norm_value(v.value) for v in fn(*args(x, y))]
    w1, w2 = res(ref, a, b), res(ref, b, a)
    if res(g, a, b) != w1:
        return False
    f(*args(b, b))
    if res(g, b, a) != w2 or res(f, a, b) != w1:
        return False
    g(*args(a, a))
    return res(f, b, a) == w2


def func_copy_ok(c0: bool, c1: bool, i0: bool, i1: bool, a0: bool, a1: bool, a2: bool, b0: bool, b1: bool, b2: bool) -> bool:
    """
    pre: sel(c0, c1) < 3
    post: _
    """
    return concrete(_func, sel(c0, c1), sel(i0, i1), sel(a0, a1, a2), sel(b0, b1, b2))


def _circular(kind, g1, g2):
    d = {P + 'A1': '=%sB1+1' % P, P + 'B1': '=IF(%sC1,%sA1,5)' % (P, P), P + 'C1': bool(g1),
         P + 'D1': '=IF(%sC2,%sD1,2)+%sA1' % (P, P, P), P + 'C2': bool(g2)}
    m = formulas.ExcelModel().from_dict(d).finish(circular=True, complete=False)
    c = clone(m, kind)
    want = M.norm(formulas.ExcelModel().from_dict(d).finish(circular=True, complete=False).calculate())
    m.calculate(inputs={P + 'C1': not g1})
    return M.norm(c.calculate()) == want and M.norm(m.calculate()) == want


def circular_copy_ok(c0: bool, c1: bool, g1: bool, g2: bool) -> bool:
    """
    pre: sel(c0, c1) < 3
    post: _
    """
    return concrete(_circular, sel(c0, c1), True if g1 else False, True if g2 else False)

"""C18 obligations decided with z3's string/regex theory (Engines B + C)."""
import time
import z3
from vlib import symtrace as st
from vlib import rx2smt as R
from vlib.symrun import summarize
from vlib.stubs import apply_common

apply_common()
import formulas.tokens.operand as O
from formulas.parser import Parser


# --- grammars of the converters Number.compile may call (Python language reference /
# --- library reference), parametrised by the case transformation applied before the call

def _letter(c, pos, tr):
    """regex of original characters x with transform(x at position pos) == c"""
    if not c.isalpha() or tr is None:
        return R.lit(c)
    eff = tr
    if tr == 'cap':
        eff = 'upper' if pos == 'first' else 'lower'
    if eff == 'lower':
        return z3.Union(R.lit(c), R.lit(c.upper())) if c.islower() else R.union([])
    return z3.Union(R.lit(c), R.lit(c.lower())) if c.isupper() else R.union([])


def grammar(kind, tr):
    dig = R.ch(48, 57)
    digs = z3.Plus(dig)
    E = z3.Union(_letter('e', 'rest', tr), _letter('E', 'rest', tr))
    exp = z3.Concat(E, z3.Option(z3.Union(R.lit('+'), R.lit('-'))), digs)
    if kind == 'eval':
        # decinteger: nonzerodigit digit* | "0"+ ; floatnumber: pointfloat | exponentfloat (no underscores here)
        decint = z3.Union(z3.Concat(R.ch(49, 57), z3.Star(dig)), z3.Plus(R.lit('0')))
        pointfloat = z3.Union(z3.Concat(z3.Option(digs), R.lit('.'), digs), z3.Concat(digs, R.lit('.')))
        floatnum = z3.Union(pointfloat, z3.Concat(z3.Union(digs, pointfloat), exp))
        word = lambda w: z3.Concat(*[_letter(c, 'first' if i == 0 else 'rest', tr) for i, c in enumerate(w)])
        return z3.Union(decint, floatnum, word('True'), word('False'))
    if kind == 'int':
        return z3.Concat(z3.Option(z3.Union(R.lit('+'), R.lit('-'))), digs)
    if kind == 'float':
        mant = z3.Union(z3.Concat(digs, z3.Option(z3.Concat(R.lit('.'), z3.Star(dig)))), z3.Concat(R.lit('.'), digs))
        return z3.Concat(z3.Option(z3.Union(R.lit('+'), R.lit('-'))), mant, z3.Option(exp))
    raise ValueError(kind)


class SStr:
    """symbolic string: z3 term + pending case transformation"""

    def __init__(self, t, tr=None):
        self.t, self.tr = t, tr

    def _with(self, tr):
        if self.tr is not None and self.tr != tr:
            raise st.Unsupported('two different case transformations')
        return SStr(self.t, tr)

    def capitalize(self): return self._with('cap')
    def lower(self): return self._with('lower')
    def upper(self): return self._with('upper')
    def strip(self): return self            # the name group never carries blanks

    def _pre(self, text):
        return z3.Concat(*[_letter(c, 'first' if i == 0 else 'rest', self.tr) for i, c in enumerate(text)]) \
            if len(text) > 1 else (_letter(text, 'first', self.tr) if text else R.EPS)

    def __eq__(self, o):
        if isinstance(o, str):
            return st.SBool(z3.InRe(self.t, self._pre(o)))
        return NotImplemented

    def __ne__(self, o):
        return ~(self == o)
    __hash__ = None

    def __contains__(self, sub):
        if isinstance(sub, str) and len(sub) == 1:
            return st.decide(z3.InRe(self.t, z3.Concat(R.ALL, _letter(sub, 'rest', self.tr), R.ALL)))
        raise st.Unsupported('substring test')

    def __len__(self):
        raise TypeError('SStr leaked into C code (len)')

    def __str__(self):
        raise TypeError('SStr leaked into C code (str)')


class Opaque:
    """the numeric value of an accepted literal (its value is not the subject here)"""


def _conv(kind, exc):
    def f(x, *a, **k):
        if not isinstance(x, SStr):
            return {'eval': eval, 'int': int, 'float': float}[kind](x, *a, **k)
        if st.decide(z3.InRe(x.t, grammar(kind, x.tr))):
            return Opaque()
        raise exc('%s() rejects this literal' % kind)
    return f


def number_literals():
    """every string the tokenizer's numeric alternative can capture is converted by
    Number.compile without an exception (real bytecode of compile on a symbolic name)"""
    L, tr = R.lang_group(O.Number._re, 'name')
    s = z3.String('s')
    O.eval, O.int, O.float = _conv('eval', SyntaxError), _conv('int', ValueError), _conv('float', ValueError)

    def fn():
        tok = O.Number.__new__(O.Number)
        tok.source, tok.attr = None, {'name': SStr(s)}
        return tok.compile()

    def post(out):
        return out[0] == 'ret'
    t0 = time.time()
    res = st.explore(fn, post, [z3.InRe(s, L), z3.Length(s) <= 12], timeout_s=120)
    out = summarize(res, {'s': s})
    out['detail'] += ' | language of group <name> read from Number._re (%d atomic groups over-approximated)' % tr.atomic
    return out


def number_forms_accepted(samples=40):
    """numeric literals in every form Excel writes - digits, decimals, leading zeros, a
    signed exponent - are matched in full by the tokenizer's Number pattern.
    The live regex is read with atomic groups as plain groups (that can only enlarge its
    language): a string outside this reading is certainly rejected by the real regex
    (counterexample, replayed); inclusion is claimed for the plain reading and
    cross-checked by matching solver-generated members with the real regex."""
    dig = R.ch(48, 57)
    digs = z3.Plus(dig)
    E = z3.Union(R.lit('E'), R.lit('e'))
    exp = z3.Concat(E, z3.Union(R.lit('+'), R.lit('-')), digs)
    mant = z3.Union(z3.Concat(digs, z3.Option(z3.Concat(R.lit('.'), digs))), z3.Concat(R.lit('.'), digs))
    excel = z3.Concat(mant, z3.Option(exp))
    Lfull, tr = R.lang_fullmatch(O.Number._re)
    s = z3.String('s')
    sol = z3.Solver()
    sol.set('timeout', 120000)
    sol.add(z3.InRe(s, excel), z3.Length(s) <= 14, z3.Not(z3.InRe(s, Lfull)))
    r = str(sol.check())
    if r == 'sat':
        return {'status': 'counterexample', 'paths': 1, 'queries': 1, 'cex': {'s': sol.model()[s].as_string()},
                'detail': 'a numeric literal form the tokenizer does not match'}
    if r != 'unsat':
        return {'status': 'inconclusive', 'paths': 1, 'queries': 1, 'detail': r}
    # members of the Excel language, produced by the solver, against the REAL regex
    gen = z3.Solver()
    gen.add(z3.InRe(s, excel), z3.Length(s) <= 10)
    n = 0
    for _ in range(samples):
        if str(gen.check()) != 'sat':
            break
        w = gen.model()[s].as_string()
        m = O.Number._re.match(w)
        if not (m and m.end(0) == len(w)):
            return {'status': 'counterexample', 'paths': 1, 'queries': n + 2, 'cex': {'s': w},
                    'detail': 'real regex rejects a member the plain reading accepts (atomic group)'}
        gen.add(s != z3.StringVal(w), z3.Length(s) != len(w) if n % 3 == 0 else z3.BoolVal(True))
        n += 1
    return {'status': 'discharged', 'paths': 1, 'queries': n + 1,
            'detail': 'unsat; %d solver-generated literals also matched by the real regex (%d atomic groups read as plain)' % (n, tr.atomic)}


def filters_progress():
    """every token pattern either fails or consumes at least one character, so the
    tokenizer loop `while expr` terminates: the only zero-length match is the empty
    match and Token.__init__ turns it into TokenError (end_match falsy)"""
    out = {'paths': 0, 'queries': 0, 'status': 'discharged', 'detail': ''}
    notes = []
    for T in Parser.filters:
        t0 = time.time()
        try:
            Lfull, tr = R.lang_fullmatch(T._re)
        except NotImplementedError as e:
            return {'status': 'inconclusive', 'detail': '%s: %s' % (T.__name__, e), 'paths': out['paths'], 'queries': out['queries']}
        # can the pattern match the EMPTY prefix of some input?  (then end_match == 0)
        Lm, _ = R.lang_match(T._re)
        s = z3.String('s')
        sol = z3.Solver()
        sol.set('timeout', 60000)
        # a zero-length match exists iff the pattern as a whole-string language contains ''
        sol.add(z3.InRe(z3.StringVal(''), Lfull))
        r = str(sol.check())
        out['queries'] += 1
        out['paths'] += 1
        notes.append('%s:%s' % (T.__name__, 'nullable' if r == 'sat' else r))
        if r == 'sat':
            # nullable pattern: real Token must refuse it (end_match == 0 -> attr empty -> TokenError)
            from formulas.errors import TokenError
            try:
                T('')
                return dict(out, status='counterexample', cex={'token': T.__name__}, detail='zero-length token accepted')
            except TokenError:
                pass
        elif r != 'unsat':
            out['status'] = 'inconclusive'
    out['detail'] = ' '.join(notes)
    return out

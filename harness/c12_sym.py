"""C12 obligations for Engine B: the rounding family on symbolic DECIMALS (x = k / 10^e
for a symbolic integer k) and the integer-valued kernels on IEEE doubles."""
import decimal
import math
import z3
from vlib import symtrace as st
from vlib.symrun import summarize
from vlib.stubs import apply_common

apply_common()
import numpy as np
import formulas.functions as F
import formulas.functions.math as M
from formulas.tokens.operand import XlError

ERR = F.Error.errors
NUM, DIV, VALUE = ERR['#NUM!'], ERR['#DIV/0!'], ERR['#VALUE!']


# ---- exact decimal proxies (LIA) --------------------------------------------
class XF:
    """the double nearest to n / 10^e (n symbolic Int, e concrete >= 0).  Contract used:
    for |n| < 10^15 the shortest repr() of that double is the decimal n / 10^e itself, and
    float() of a decimal with <= 15 significant digits is the double nearest to it."""

    def __init__(self, n, e):
        self.n, self.e = n, e

    def __lt__(self, o):
        assert o == 0
        return st.SBool(self.n < 0)

    def __neg__(self):
        return XF(-self.n, self.e)

    def __float__(self):
        raise TypeError('XF leaked into C code (float())')

    def __mul__(self, o):
        raise TypeError('XF: binary floating-point arithmetic on the decimal proxy is not modelled')
    __rmul__ = __truediv__ = __rtruediv__ = __add__ = __radd__ = __sub__ = __rsub__ = __mul__

    def __abs__(self):
        return XF(z3.If(self.n < 0, -self.n, self.n), self.e)


class XRepr:
    def __init__(self, x):
        self.x = x


class SDec:
    """decimal value n * 10^exp"""

    def __init__(self, n, exp):
        self.n, self.exp = n, exp

    def __abs__(self):
        return SDec(z3.If(self.n < 0, -self.n, self.n), self.exp)

    def scaleb(self, d):
        assert isinstance(d, int)
        return SDec(self.n, self.exp + d)

    def is_finite(self):
        return True

    def as_tuple(self):
        class T:
            exponent = self.exp
        return T

    def _int(self, mode):
        """integer value after rounding with mode in floor / ceil / trunc / half_up"""
        if self.exp >= 0:
            return self.n * (10 ** self.exp)
        p = 10 ** (-self.exp)
        q, r = self.n / p, self.n % p              # z3: floor division for a positive divisor
        if mode == 'floor':
            return q
        if mode == 'ceil':
            return z3.If(r == 0, q, q + 1)
        if mode == 'trunc':
            return z3.If(z3.And(self.n < 0, r != 0), q + 1, q)
        if mode == 'half_up':                      # ROUND_HALF_UP: ties away from zero
            a = z3.If(self.n < 0, -self.n, self.n)
            qa, ra = a / p, a % p
            m = z3.If(2 * ra >= p, qa + 1, qa)
            return z3.If(self.n < 0, -m, m)
        raise ValueError(mode)

    def __floor__(self): return st.SInt(self._int('floor'))
    def __ceil__(self): return st.SInt(self._int('ceil'))
    def __trunc__(self): return st.SInt(self._int('trunc'))

    def quantize(self, exp, rounding=None):
        assert exp == 0
        mode = {decimal.ROUND_HALF_UP: 'half_up', decimal.ROUND_FLOOR: 'floor', decimal.ROUND_CEILING: 'ceil',
                decimal.ROUND_DOWN: 'trunc'}.get(rounding)
        if mode is None:
            raise st.Unsupported('rounding mode %r' % (rounding,))
        return SDec(self._int(mode), 0)


def sym_Decimal(v=0, *a):
    if isinstance(v, SDec):
        return v
    if isinstance(v, XRepr):
        return SDec(v.x.n, -v.x.e)
    if isinstance(v, st.SInt):
        return SDec(v.t, 0)
    if isinstance(v, XF):
        if v.e != 0:
            raise st.Unsupported('Decimal(float) of a non-integral double (exact binary expansion)')
        return SDec(v.n, 0)
    return decimal.Decimal(v, *a)


def sym_float(v=0.0):
    if isinstance(v, XF):
        return v
    if isinstance(v, SDec):
        return XF(v.n, -v.exp) if v.exp < 0 else XF(v.n * 10 ** v.exp, 0)
    if isinstance(v, st.SInt):
        return XF(v.t, 0)
    return st.sym_float(v)


def sym_repr(v):
    return XRepr(v) if isinstance(v, XF) else repr(v)


def sym_abs(v):
    return abs(v)


def install_decimal():
    st.MODE = 'lia'
    M.float, M.repr, M.Decimal, M.abs, M.math = sym_float, sym_repr, sym_Decimal, sym_abs, st.SMath()
    st.PROXY_NAMES.extend(['XF', 'SDec', 'XRepr'])


def rounding(name='ROUND', e=2, d=1, maxdigits=15):
    """name(x, d) for every decimal x = k / 10^e with |k| < 10^maxdigits equals the decimal-
    arithmetic answer (half away from zero / towards zero / away from zero)"""
    install_decimal()
    fn = {'ROUND': M.xround, 'ROUNDUP': lambda x, dd: M.xround(x, dd, func=math.ceil),
          'ROUNDDOWN': lambda x, dd: M.xround(x, dd, func=math.floor), 'TRUNC': M.xtrunc}[name]
    k = z3.Int('k')

    def body():
        return fn(XF(k, e), d)

    def post(out):
        if out[0] == 'exc':
            return False
        r = out[1]
        if not isinstance(r, XF):
            return False
        m = e - d                                   # digits dropped
        a = z3.If(k < 0, -k, k)
        if m <= 0:
            want_n, want_e = k, e
        else:
            p = 10 ** m
            q, rem = a / p, a % p
            if name == 'ROUND':
                q2 = z3.If(2 * rem >= p, q + 1, q)
            elif name == 'ROUNDUP':
                q2 = z3.If(rem > 0, q + 1, q)
            else:
                q2 = q
            want_n, want_e = z3.If(k < 0, -q2, q2), d
        # compare the decimals r.n / 10^r.e and want_n / 10^want_e (want_e may be negative)
        E = max(r.e, want_e, 0)
        lhs = r.n * 10 ** (E - r.e)
        rhs = want_n * 10 ** (E - want_e)
        return lhs == rhs
    res = st.explore(body, post, [k > -10 ** maxdigits, k < 10 ** maxdigits], timeout_s=120)
    return summarize(res, {'k': k})


# ---- integer-valued kernels on IEEE doubles (QF_FP) ------------------------------
def install_fp():
    st.MODE = 'bv'
    st.install_numpy_stubs()
    M.float, M.math = st.sym_float, st.SMath()
    import sys
    for name, mod in list(sys.modules.items()):
        if name.startswith('formulas.functions') and mod is not None and 'float' not in vars(mod):
            mod.float = st.sym_float


def _is_int(t):
    return z3.fpEQ(z3.fpRoundToIntegral(z3.RTZ(), t), t)


def even_odd(which='EVEN'):
    """EVEN / ODD: the nearest even / odd integer away from zero, for every double |x| < 2^50"""
    install_fp()
    x = z3.FP('x', st.F64)
    fn = M.xeven if which == 'EVEN' else M.xodd
    two = z3.FPVal(2.0, st.F64)

    def body():
        return fn(st.SFloat(x))

    def post(out):
        if out[0] == 'exc':
            return False
        r = st.fp(out[1])
        half = z3.fpDiv(st.RNE, r, two)
        ax, ar = z3.fpAbs(x), z3.fpAbs(r)
        parity = _is_int(half) if which == 'EVEN' else z3.And(_is_int(r), z3.Not(_is_int(half)))
        sign = z3.If(z3.fpLT(x, z3.FPVal(0.0, st.F64)), z3.fpLEQ(r, z3.FPVal(0.0, st.F64)), z3.fpGEQ(r, z3.FPVal(0.0, st.F64)))
        near = z3.And(z3.fpGEQ(ar, ax), z3.fpLT(z3.fpSub(st.RNE, ar, two), ax))
        return z3.And(parity, sign, near)
    lim = z3.FPVal(2.0 ** 50, st.F64)
    # Excel has no subnormal numbers: x is zero or a normal double
    res = st.explore(body, post, [st.fin(x), z3.fpLT(z3.fpAbs(x), lim), z3.Not(z3.fpIsSubnormal(x))], timeout_s=300, use_cvc5=True)
    return summarize(res, {'x': x})


def int_sign_abs():
    """INT = floor, SIGN in {-1, 0, 1}, ABS >= 0 with |ABS| = |x| for every finite double (through
    the safe_eval kernels of the registered functions)"""
    install_fp()
    from c02_sym import closure_of
    x = z3.FP('x', st.F64)
    FN = F.get_functions()
    se = {k: closure_of(FN[k], 'safe_eval') for k in ('INT', 'SIGN', 'ABS')}
    zero = z3.FPVal(0.0, st.F64)

    def body():
        return se['INT'](st.SFloat(x)), se['SIGN'](st.SFloat(x)), se['ABS'](st.SFloat(x))

    def post(out):
        if out[0] == 'exc':
            return False
        i, s, a = out[1]
        if any(isinstance(v, XlError) for v in (i, s, a)):
            return False
        it, s_t, at = st.fp(i), st.fp(s), st.fp(a)
        ok_int = z3.And(_is_int(it), z3.fpLEQ(it, x), z3.fpGT(z3.fpAdd(st.RNE, it, z3.FPVal(1.0, st.F64)), x))
        ok_sign = z3.If(z3.fpGT(x, zero), z3.fpEQ(s_t, z3.FPVal(1.0, st.F64)),
                        z3.If(z3.fpLT(x, zero), z3.fpEQ(s_t, z3.FPVal(-1.0, st.F64)), z3.fpEQ(s_t, zero)))
        ok_abs = z3.And(z3.fpGEQ(at, zero), z3.Or(z3.fpEQ(at, x), z3.fpEQ(at, z3.fpNeg(x))))
        return z3.And(ok_int, ok_sign, ok_abs)
    lim = z3.FPVal(2.0 ** 52, st.F64)
    res = st.explore(body, post, [st.fin(x), z3.fpLT(z3.fpAbs(x), lim)], timeout_s=300, use_cvc5=True)
    return summarize(res, {'x': x})


def ceiling_floor(which='CEILING', bits=20, sig=2):
    """CEILING / FLOOR on integer arguments, all sign cases as Excel tabulates them; the
    significance is a concrete value per task (division by a constant), the number symbolic"""
    install_fp()
    n, s = z3.BitVec('n', 64), z3.BitVecVal(sig, 64)
    fn = {'CEILING': M.xceiling,
          'FLOOR': lambda a, b: M.xceiling(a, b, ceil=math.floor, dfl=DIV)}[which]
    lim = 1 << bits

    def body():
        return fn(st.SFloat(st.fp(st.SInt(n))), st.SFloat(st.fp(st.SInt(s))))

    def post(out):
        if out[0] == 'exc':
            return False
        r = out[1]
        if which == 'CEILING' and not isinstance(r, (XlError, st.SFloat, st.SInt)):
            r = st.SFloat(st.fp(r)) if isinstance(r, (int, float)) and not (isinstance(r, float) and math.isnan(r)) else r
        zero_sig = s == 0
        bad_sign = z3.And(s < 0, n > 0)
        if isinstance(r, float) and math.isnan(r):
            return z3.And(z3.Not(zero_sig), bad_sign)          # nan -> #NUM! by convert_nan
        if r is DIV:
            return z3.And(which == 'FLOOR', zero_sig)
        if isinstance(r, XlError):
            return False
        rt = st.fp(r)
        ri = z3.fpToSBV(z3.RTZ(), rt, z3.BitVecSort(64))
        isint = _is_int(rt)
        # multiple of s, on the right side of n, less than one step away
        q = z3.If(s == 0, z3.BitVecVal(0, 64), ri / s)
        mult = z3.And(s != 0, ri == q * s)
        if which == 'CEILING':
            side = z3.If(s > 0, z3.And(ri >= n, ri - s < n), z3.And(ri <= n, ri - s > n))
            zero_case = z3.And(zero_sig, ri == 0)
        else:
            side = z3.If(s > 0, z3.And(ri <= n, ri + s > n), z3.And(ri >= n, ri + s < n))
            zero_case = z3.BoolVal(False)
        return z3.And(isint, z3.Or(zero_case, z3.And(z3.Not(zero_sig), z3.Not(bad_sign), mult, side)))
    res = st.explore(body, post, [n > -lim, n < lim], timeout_s=300, use_cvc5=True)
    return summarize(res, {'n': n})

# C11 harness (tier S over the WHOLE function table): function, argument count and
# argument values are boolean selectors; every path calls the public registered
# function natively.  Totality: no exception, only Excel values come back.
# Error propagation: an error argument of a non-exempt function gives an error.
from vlib.stubs import apply_common
apply_common()
from vlib.sel import sel, concrete
import inspect
import math
import warnings
import numpy as np
import schedula as sh
from formulas.functions import get_functions, Error
from formulas.tokens.operand import XlError

F = get_functions()
E = Error.errors
GROUP = __GROUP__              # function names handled by this generated copy (<= 8)
NA_, DIV_, REF_ = E['#N/A'], E['#DIV/0!'], E['#REF!']
P11 = [1, -2.5, 0, True, 'x', '7', sh.EMPTY, NA_, DIV_, np.asarray([[1, 'a']], object), np.asarray([[2], [REF_]], object), '1E+999']
P8 = [1, -2.5, 0, True, 'x', sh.EMPTY, NA_, np.asarray([[1, 'a']], object)]
P4 = [2, 'x', sh.EMPTY, DIV_]


def callable_of(name):
    f = F[name]
    extra = len(f.get('extra_inputs', {})) if isinstance(f, dict) else 0
    return (f['function'] if isinstance(f, dict) else f), extra


def arities(name):
    """admissible argument counts that are exercised: the required positional ones, and one or
    two more for functions taking any number of arguments"""
    f, extra = callable_of(name)
    ps = list(inspect.signature(f).parameters.values())
    req = len([p for p in ps if p.default is p.empty and p.kind in (p.POSITIONAL_ONLY, p.POSITIONAL_OR_KEYWORD)]) - extra
    var = any(p.kind == p.VAR_POSITIONAL for p in ps)
    if var:
        return sorted({max(req, 1), max(req, 1) + 1, max(req, 1) + 2})
    # optional arguments: only those EXCEL documents (an optional parameter of the implementation
    # is often an internal switch, not a worksheet argument), at most two more
    opt = OPTIONAL.get(name.replace('_XLFN.', '').replace('_XLWS.', ''), 0)
    return [req + i for i in range(0, min(opt, 2) + 1)]


OPTIONAL = {
    'ADDRESS': 3, 'AVERAGEIF': 1, 'SUMIF': 1, 'BIN2HEX': 1, 'BIN2OCT': 1, 'DEC2BIN': 1, 'DEC2HEX': 1, 'DEC2OCT': 1,
    'HEX2BIN': 1, 'HEX2OCT': 1, 'OCT2BIN': 1, 'OCT2HEX': 1, 'CEILING.MATH': 2, 'CEILING.PRECISE': 1, 'ISO.CEILING': 1,
    'FLOOR.MATH': 2, 'FLOOR.PRECISE': 1, 'FILTER': 1, 'FIND': 1, 'SEARCH': 1, 'IF': 2, 'INDEX': 2, 'IRR': 1, 'LEFT': 1,
    'RIGHT': 1, 'LOG': 1, 'NPER': 2, 'PPMT': 2, 'RATE': 3, 'ROMAN': 1, 'SUBSTITUTE': 1, 'TRUNC': 1, 'WEEKDAY': 1,
    'WEEKNUM': 1, 'XIRR': 1, 'YEARFRAC': 1}


AR = {n: arities(n) for n in GROUP}


def wellformed(v):
    if isinstance(v, np.ndarray):
        return all(wellformed(x) for x in v.ravel().tolist())
    if isinstance(v, XlError) or v is sh.EMPTY or v is sh.NONE:
        return True
    if isinstance(v, (bool, np.bool_, str)):
        return True
    if isinstance(v, (int, float, np.integer, np.floating)):
        return math.isfinite(v)
    if isinstance(v, (list, tuple)):
        return all(wellformed(x) for x in v)
    return False


KNOWN_INF = __KNOWN_INF__


def only_nonfinite(v):
    """every ill-formed element of v is a non-finite float"""
    if isinstance(v, np.ndarray):
        return all(only_nonfinite(x) for x in v.ravel().tolist())
    if isinstance(v, (list, tuple)):
        return all(only_nonfinite(x) for x in v)
    return wellformed(v) or (isinstance(v, (float, np.floating)) and not math.isfinite(v))


def _call(fi, args):
    name = GROUP[fi]
    if len(args) not in AR[name]:
        return True
    f, extra = callable_of(name)
    with warnings.catch_warnings():
        warnings.simplefilter('ignore')
        try:
            r = f(*([False] * extra + list(args)))
        except Exception:
            return False                       # never raises
    if wellformed(r):
        return True                            # finite numbers, text, logicals, errors, blanks, arrays of these
    # known finding C11-overflow-to-infinity: a result that is inf / nan because an argument is text denoting an
    # infinite number (or a number near the end of the double range) - only non-finite NUMBERS are excused
    return bool(KNOWN_INF) and any(isinstance(a, str) and a == '1E+999' for a in args) and only_nonfinite(r)


def total0_ok(f0: bool, f1: bool, f2: bool) -> bool:
    """
    pre: sel(f0, f1, f2) < len(GROUP)
    post: _
    """
    return concrete(_call, sel(f0, f1, f2), [])


def total1_ok(f0: bool, f1: bool, f2: bool, a0: bool, a1: bool, a2: bool, a3: bool) -> bool:
    """
    pre: sel(f0, f1, f2) < len(GROUP) and sel(a0, a1, a2, a3) < 12
    post: _
    """
    return concrete(_call, sel(f0, f1, f2), [P11[sel(a0, a1, a2, a3)]])


def total2_ok(f0: bool, f1: bool, f2: bool, a0: bool, a1: bool, a2: bool, a3: bool, b0: bool, b1: bool, b2: bool, b3: bool) -> bool:
    """
    pre: sel(f0, f1, f2) < len(GROUP) and sel(a0, a1, a2, a3) < 12 and sel(b0, b1, b2, b3) < 12
    post: _
    """
    return concrete(_call, sel(f0, f1, f2), [P11[sel(a0, a1, a2, a3)], P11[sel(b0, b1, b2, b3)]])


def total3_ok(f0: bool, f1: bool, f2: bool, a0: bool, a1: bool, a2: bool, b0: bool, b1: bool, b2: bool,
              c0: bool, c1: bool, c2: bool) -> bool:
    """
    pre: sel(f0, f1, f2) < len(GROUP)
    post: _
    """
    return concrete(_call, sel(f0, f1, f2), [P8[sel(a0, a1, a2)], P8[sel(b0, b1, b2)], P8[sel(c0, c1, c2)]])


def total4_ok(f0: bool, f1: bool, f2: bool, a0: bool, a1: bool, b0: bool, b1: bool, c0: bool, c1: bool, d0: bool, d1: bool,
              five: bool) -> bool:
    """
    pre: sel(f0, f1, f2) < len(GROUP)
    post: _
    """
    args = [P4[sel(a0, a1)], P4[sel(b0, b1)], P4[sel(c0, c1)], P4[sel(d0, d1)]]
    return concrete(_call, sel(f0, f1, f2), args + ([1] if five else []))


# ---- errors are never silently lost ------------------------------------------------
def exempt(name):
    base = name.replace('_XLFN.', '').replace('_XLWS.', '')
    return base.startswith(('IS', 'COUNT')) or base in {
        'IFERROR', 'IFNA', 'ERROR.TYPE', 'IF', 'IFS', 'SWITCH', 'CHOOSE', 'SUMIF', 'AVERAGEIF', 'SUMIFS', 'HLOOKUP',
        'VLOOKUP', 'LOOKUP', 'INDEX', 'MATCH', 'TRANSPOSE', 'ROW', 'COLUMN', 'ROWS', 'COLUMNS', 'N', 'T', 'TYPE',
        'FILTER', 'AGGREGATE', 'SINGLE', 'ARRAY', 'ARRAYROW', 'AND', 'OR', 'XOR', 'NA', 'MAXA', 'MINA', 'AVERAGEA'}


ERRS = [E[k] for k in ('#NULL!', '#DIV/0!', '#VALUE!', '#REF!', '#NUM!', '#NAME?', '#N/A')]
BASES = [2, 1, 0.5, 3]


def _error_kept(fi, pos, ei, bi):
    name = GROUP[fi]
    if exempt(name):
        return True
    f, extra = callable_of(name)
    for k in AR[name]:
        if pos >= k or k > 5:
            continue
        args = [BASES[bi]] * k
        args[pos] = ERRS[ei]
        with warnings.catch_warnings():
            warnings.simplefilter('ignore')
            try:
                r = f(*([False] * extra + args))
            except Exception:
                return False
        vals = np.asarray(r, object).ravel().tolist()
        if not (len(vals) > 0 and all(isinstance(v, XlError) for v in vals)):
            return False
    return True


def is_variadic(name):
    f, extra = callable_of(name)
    return any(p.kind == p.VAR_POSITIONAL for p in inspect.signature(f).parameters.values())


def _many_error_kept(fi, where, ei, bi):
    """an error among VERY MANY arguments (both sides of numpy's 32-operand limit) is not lost either"""
    name = GROUP[fi]
    if exempt(name) or not is_variadic(name):
        return True
    f, extra = callable_of(name)
    for n in (31, 32, 33, 40):
        args = [BASES[bi]] * n
        args[[0, n // 2, n - 1][where]] = ERRS[ei]
        with warnings.catch_warnings():
            warnings.simplefilter('ignore')
            try:
                r = f(*([False] * extra + args))
            except Exception:
                return False
        vals = np.asarray(r, object).ravel().tolist()
        if not (len(vals) > 0 and all(isinstance(v, XlError) for v in vals)):
            return False
    return True


def many_error_kept_ok(f0: bool, f1: bool, f2: bool, w0: bool, w1: bool, e0: bool, e1: bool, e2: bool, b0: bool) -> bool:
    """
    pre: sel(f0, f1, f2) < len(GROUP) and sel(e0, e1, e2) < 7 and sel(w0, w1) < 3
    post: _
    """
    return concrete(_many_error_kept, sel(f0, f1, f2), sel(w0, w1), sel(e0, e1, e2), 1 if b0 else 0)


def error_kept_ok(f0: bool, f1: bool, f2: bool, p0: bool, p1: bool, p2: bool, e0: bool, e1: bool, e2: bool, b0: bool) -> bool:
    """
    pre: sel(f0, f1, f2) < len(GROUP) and sel(e0, e1, e2) < 7 and sel(p0, p1, p2) < 5
    post: _
    """
    # an error value in argument position p (the other arguments are numbers), for every exercised count
    return concrete(_error_kept, sel(f0, f1, f2), sel(p0, p1, p2), sel(e0, e1, e2), 1 if b0 else 0)

# C07 harness (tier S): histories of operations on one model, then an observed
# calculation with overrides, compared with a FRESH model.  Template, history and
# override set are boolean selectors; each path runs natively (vlib.sel.concrete).
from vlib.stubs import apply_common
apply_common()
from vlib.sel import sel, concrete
import models as M

T = __T__               # template family, fixed per generated copy
OP1 = __OP1__           # first operation of the history, fixed per generated copy (or None)
SETS = M.override_sets()
NS = len(SETS)


def _history(ops, k):
    m = M.build(T)
    for op in ops:
        M.apply_op(m, op)
    label, inp = SETS[k]
    got = M.norm(m.calculate(inputs=inp))
    want = M.norm(M.build(T).calculate(inputs=inp))
    return got == want


def history2_ok(o0: bool, o1: bool, o2: bool, o3: bool, k0: bool, k1: bool, k2: bool, k3: bool) -> bool:
    """
    pre: sel(o0, o1, o2, o3) < M.NOPS and sel(k0, k1, k2, k3) < NS
    post: _
    """
    return concrete(_history, [OP1, sel(o0, o1, o2, o3)], sel(k0, k1, k2, k3))


def history3_ok(o0: bool, o1: bool, o2: bool, o3: bool, p0: bool, p1: bool, p2: bool, p3: bool,
                k0: bool, k1: bool, k2: bool, k3: bool) -> bool:
    """
    pre: sel(o0, o1, o2, o3) < M.NOPS and sel(p0, p1, p2, p3) < M.NOPS and sel(k0, k1, k2, k3) < NS
    post: _
    """
    return concrete(_history, [OP1, sel(o0, o1, o2, o3), sel(p0, p1, p2, p3)], sel(k0, k1, k2, k3))


def _as_if_constant(i, j):
    """calculate(inputs={A1: v, A2: w}) behaves as if A1, A2 were constants holding v, w"""
    pl = M.pool()
    v, w = pl[i], pl[j]
    got = M.norm(M.build(T).calculate(inputs={M.P + 'A1': v, M.P + 'A2': w}))
    want = M.norm(M.build(T, a1=v, a2=w).calculate())
    return got == want


def as_if_constant_ok(i0: bool, i1: bool, i2: bool, j0: bool, j1: bool, j2: bool) -> bool:
    """
    post: _
    """
    return concrete(_as_if_constant, sel(i0, i1, i2), sel(j0, j1, j2))


KNOWN_NB = __KNOWN_NB__
FORMULA_CELLS = [k for k, v in M.template(T).items() if isinstance(v, str) and v.startswith('=') and "]'!" not in k and k not in M.VOLATILE]


def _name_range(i, j):
    pl = M.pool()
    v, w = pl[i], pl[j]
    a = M.norm(M.build(T).calculate(inputs={M.NAME: v}))
    b = M.norm(M.build(T).calculate(inputs={M.P + 'A1': v}))
    if a != b:
        return False                  # through the defined name == to the underlying cell
    if isinstance(v, M.XlError) or isinstance(w, M.XlError):
        return True
    rng, cells = M.RANGE[T]
    vals = ([v, w] + [4])[:len(cells)] if len(cells) == 3 else [v, w]
    c = M.norm(M.build(T).calculate(inputs={rng: [[x] for x in vals]}))
    d = M.norm(M.build(T).calculate(inputs={M.P + n: x for n, x in zip(cells, vals)}))
    if c != d:
        return False                  # through a multi-cell range of the model == to its cells
    blk = [[v, 7], [w, v]]
    e = M.norm(M.build(T).calculate(inputs={M.BLOCK: blk}))
    f = M.norm(M.build(T).calculate(inputs={M.P + 'H1': v, M.P + 'I1': 7, M.P + 'H2': w, M.P + 'I2': v}))
    if e != f:
        return False                  # a two-dimensional block == its four cells, each at its own place
    # a sparse range (five of its seven cells are blank in the model, two of them known to this range only)
    col = [v, 3, w, 0, 2, v, 1]
    g = M.norm(M.build(T).calculate(inputs={M.P + 'H1:H7': [[x] for x in col]}))
    h = M.norm(M.build(T).calculate(inputs={M.P + 'H%d' % (n + 1): x for n, x in enumerate(col)}))
    # known finding C07-override-does-not-reach-blank-cells: the blank cells H3 ... H7 and their OTHER readers
    blank_readers = ('!H3', '!H4', '!H5', '!NB', '!H2:H5', '!G6:H7', '!K6', '!K7', '!K11') if KNOWN_NB else ()
    if any(g[k] != h[k] for k in h if k in g and not k.endswith(blank_readers + ('!H1:H7',))):
        return False
    if any(k not in g for k in FORMULA_CELLS):
        return False
    # the same where every blank cell is known to ranges only and each range holds a stored cell: no exclusion
    col = [v, 8, w, 4, v]
    g = M.norm(M.build(T).calculate(inputs={M.P + 'I1:I5': [[x] for x in col]}))
    h = M.norm(M.build(T).calculate(inputs={M.P + 'I%d' % (n + 1): x for n, x in enumerate(col)}))
    if any(g.get(k) != h[k] for k in FORMULA_CELLS):
        return False
    # through a defined name over a cell that is blank in the model == to that cell
    a = M.norm(M.build(T).calculate(inputs={M.NB: v}))
    b = M.norm(M.build(T).calculate(inputs={M.P + 'H3': v}))
    if any(a.get(k) != b[k] for k in FORMULA_CELLS):
        return bool(KNOWN_NB)         # known finding C07-override-does-not-reach-blank-cells
    return True


def name_and_range_ok(i0: bool, i1: bool, i2: bool, j0: bool, j1: bool, j2: bool) -> bool:
    """
    post: _
    """
    return concrete(_name_range, sel(i0, i1, i2), sel(j0, j1, j2))


def _override_formula(i):
    """an overridden formula cell keeps the supplied value and its dependents follow it"""
    v = M.pool()[i]
    sol = M.build(T).calculate(inputs={M.P + 'B1': v})
    got = M.norm(sol)
    d = M.template(T)
    d[M.P + 'B1'] = M.as_cell(v)
    import formulas
    want = M.norm(formulas.ExcelModel().from_dict(d).finish(complete=False).calculate())
    return got == want


def override_formula_ok(i0: bool, i1: bool, i2: bool) -> bool:
    """
    post: _
    """
    return concrete(_override_formula, sel(i0, i1, i2))


def _outputs(mask, i):
    v = M.pool()[i]
    outs = [c for b, c in enumerate(M.CELLS_OUT) if mask >> b & 1]
    full = M.norm(M.build(T).calculate(inputs={M.P + 'A1': v}))
    part = M.norm(M.build(T).calculate(inputs={M.P + 'A1': v}, outputs=outs))
    return all(c in part for c in outs) and all(part[k] == full[k] for k in part)


def outputs_ok(m0: bool, m1: bool, m2: bool, m3: bool, m4: bool, m5: bool, m6: bool, i0: bool, i1: bool, i2: bool) -> bool:
    """
    pre: sel(m0, m1, m2, m3, m4, m5, m6) > 0
    post: _
    """
    # restricting the requested outputs changes no returned value
    return concrete(_outputs, sel(m0, m1, m2, m3, m4, m5, m6), sel(i0, i1, i2))

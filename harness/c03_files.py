# C03 harness, file level (tier S): the loading path.  Two real workbooks (harness/books.py:
# sheets referring to each other, whole rows, a defined name, an array formula, cross-workbook
# references, two sheets with the same title) are written to disk and loaded (a) book1 alone,
# the linked book being loaded on demand, (b) both files, (c) both files in the other order,
# and (d) from the equivalent dictionary.  All four must compute the same value for every
# formula cell, and the dictionary model must be a fixed point of its own formulas.
from vlib.stubs import apply_common
apply_common()
from vlib.sel import sel, concrete
import logging
import os
import shutil
import tempfile
import formulas
import books
import models as M

logging.disable(logging.CRITICAL)
WORK = (os.environ.get('VERIF_OUT') or '/verif') + '/.work'
VALS = [5, -1.5, 0, 2, 'x', True, 40, 1]
FIX_I = __I__


def _files(i, j):
    a1, a2 = VALS[i], VALS[j]
    os.makedirs(WORK, exist_ok=True)
    tmp = tempfile.mkdtemp(prefix='c03-', dir=WORK)
    cwd = os.getcwd()
    try:
        os.chdir(tmp)
        books.write_files(a1, a2)
        d = books.as_dict(a1, a2)
        dsol = formulas.ExcelModel().from_dict(d).finish(complete=False).calculate()
        if not M.fixed_point(d, dsol):
            return False                  # every formula cell = its own formula on the cells it refers to
        want = M.norm(dsol)
        keys = books.formula_keys()
        for paths in (('book1.xlsx',), ('book1.xlsx', 'book2.xlsx'), ('book2.xlsx', 'book1.xlsx'), ('book2.xlsx',)):
            got = M.norm(formulas.ExcelModel().loads(*paths).finish().calculate())
            for k in keys:
                if len(paths) == 1 and paths[0] not in k and k not in got:
                    continue              # a cell of the linked book that the loaded book does not need
                if got.get(k) != want[k]:
                    return False          # the same result whichever loading path and order of books
            for k, v in d.items():
                if not (isinstance(v, str) and v.startswith('=')) and k in got and got[k] != want[k]:
                    return False          # constants hold their stored values
        return True
    finally:
        os.chdir(cwd)
        shutil.rmtree(tmp, ignore_errors=True)


def files_ok(j0: bool, j1: bool, j2: bool) -> bool:
    """
    post: _
    """
    return concrete(_files, FIX_I, sel(j0, j1, j2))

# C20 harness (tier S): digit STRINGS outside the domain of BIN2DEC / OCT2DEC / HEX2DEC give #NUM!.
# The text and the function are boolean selectors; the public registered functions run natively.
from vlib.stubs import apply_common
apply_common()
from vlib.sel import sel, concrete
import numpy as np
from formulas.functions import get_functions, Error

F = get_functions()
NUM = Error.errors['#NUM!']
FUNCS = [('BIN2DEC', 2), ('OCT2DEC', 8), ('HEX2DEC', 16), ('BIN2HEX', 2), ('HEX2OCT', 16), ('OCT2BIN', 8)]
TEXTS = ['0x1F', '-1', '1_0', '+7', ' 1', '1 ', '0b1', '0o7', '1.0', '1e1', 'G', '2', '8', '', '1' * 11, '١',
         '10', '7', '1F', 'ff', '0', '0000000001', '1111111111', '7777777777', 'FFFFFFFFFF', '1,0', '１', '--1', '0X1', '1L', '1\n', '\t1']
DIGITS = {2: '01', 8: '01234567', 16: '0123456789ABCDEFabcdef'}


def scalar(v):
    v = np.ravel(v)[0] if isinstance(v, np.ndarray) else v
    return v


def _text(fi, ti):
    name, base = FUNCS[fi]
    t = TEXTS[ti]
    got = scalar(F[name](t))
    valid = 0 < len(t) <= 10 and all(c in DIGITS[base] for c in t)
    if t == '':
        return True                # an empty text is read as 0 or rejected: not the subject
    if not valid:
        return got is NUM          # outside the domain: #NUM!
    if name.endswith('2DEC'):
        v = int(t, base)
        top = {2: 1 << 9, 8: 1 << 29, 16: 1 << 39}[base]
        return got == (v - 2 * top if v >= top else v)
    return True                    # a valid source text: the value may still exceed the 10 digits of the target (other obligations)


def text_ok(f0: bool, f1: bool, f2: bool, t0: bool, t1: bool, t2: bool, t3: bool, t4: bool) -> bool:
    """
    pre: sel(f0, f1, f2) < len(FUNCS) and sel(t0, t1, t2, t3, t4) < len(TEXTS)
    post: _
    """
    return concrete(_text, sel(f0, f1, f2), sel(t0, t1, t2, t3, t4))

# C06 harness, value level (tier S): the values seen through a combined reference are the
# values of exactly its cells, each once per covering area.  Two reference expressions,
# chosen by selectors, are used in ONE formula of a real workbook model and of a formula
# compiled alone; the grid holds 3**k so that a sum identifies the multiset of cells read.
from vlib.stubs import apply_common
apply_common()
from vlib.sel import sel, concrete
import numpy as np
import formulas
from formulas.tokens.operand import XlError

P = "'[b]S'!"
COLS, ROWS = 'ABCD', (1, 2, 3)
VAL = {'%s%d' % (c, r): 3 ** (i * 3 + j) for i, c in enumerate(COLS) for j, r in enumerate(ROWS)}


def rect(a, b):
    (c1, r1), (c2, r2) = (a[0], int(a[1:])), (b[0], int(b[1:]))
    return ['%s%d' % (c, r) for c in COLS[COLS.index(c1):COLS.index(c2) + 1] for r in range(r1, r2 + 1)]


# (text with @ for the sheet prefix, expected areas; None = #NULL!)
REFS = [
    ('@A1:B2', [rect('A1', 'B2')]),
    ('(@A1:B2,@C1)', [rect('A1', 'B2'), ['C1']]),
    ('(@A1:B2,@D1)', [rect('A1', 'B2'), ['D1']]),
    ('(@A1:B2,@A1:B2)', [rect('A1', 'B2')] * 2),                        # the same area twice counts twice
    ('(@A1:B2,@B2:C3)', [rect('A1', 'B2'), rect('B2', 'C3')]),          # overlap: B2 twice
    ('@A1:C2 @B1:D3', [rect('B1', 'C2')]),                              # intersection
    ('(@A1:A2,@C1:C2,@A1:A2)', [rect('A1', 'A2'), rect('C1', 'C2'), rect('A1', 'A2')]),
    ('@A1:A3 @C1:C3', None),                                            # empty intersection
    ('(@A1:C3 @B2:D3,@A1)', [rect('B2', 'C3'), ['A1']]),
    ('(@$A$1:$B$2,@A1:B2,@D3)', [rect('A1', 'B2'), rect('A1', 'B2'), ['D3']]),
    ('@B2:D3 @A1:C3 @C1:C3', [rect('C2', 'C3')]),                       # intersection of three
    ('@D1:D3', [rect('D1', 'D3')]),
]


def total(areas):
    return None if areas is None else sum(VAL[c] for a in areas for c in a)


def scalar(v):
    v = v.value if hasattr(v, 'value') else v
    return np.ravel(v)[0] if isinstance(v, np.ndarray) else v


def _values(i, j, k):
    (t1, a1), (t2, a2) = REFS[i], REFS[j]
    w1, w2 = total(a1), total(a2)
    f = '=SUM(%s)+SUM(%s)*1000000' % (t1.replace('@', P), t2.replace('@', P))
    if k == 1 and a2 is None:
        return True      # COUNT of an error argument is not the subject here
    if k == 1:           # the second expression alone, counted
        f = '=SUM(%s)+COUNT(%s)*1000000' % (t1.replace('@', P), t2.replace('@', P))
        w2 = None if a2 is None else sum(len(a) for a in a2)
    d = {P + c: v for c, v in VAL.items()}
    d[P + 'F1'] = f
    sol = formulas.ExcelModel().from_dict(d).finish(complete=False).calculate()
    if P + 'F1' not in sol:
        return False                       # the formula is computed at all
    got = scalar(sol[P + 'F1'])
    fn = formulas.Parser().ast(f)[1].compile()
    args = []
    for name, rng in fn.inputs.items():
        areas = rng.ranges
        arg = formulas.Ranges(areas)
        for a in areas:
            vals = [[VAL['%s%d' % (COLS[x], y)] for x in range(a['n1'] - 1, a['n2'])] for y in range(int(a['r1']), int(a['r2']) + 1)]
            arg.values[a['name']] = (a, np.asarray(vals, object))
        args.append(arg)
    got2 = scalar(fn(*args))
    for g in (got, got2):
        if w1 is None or w2 is None:
            if not (isinstance(g, XlError) and str(g) == '#NULL!'):
                return False                   # an empty intersection is #NULL!
        elif isinstance(g, XlError) or float(g) != float(w1 + w2 * 1000000):
            return False                       # exactly those cells, each once per covering area
    return True


def values_ok(i0: bool, i1: bool, i2: bool, i3: bool, j0: bool, j1: bool, j2: bool, j3: bool, k: bool) -> bool:
    """
    pre: sel(i0, i1, i2, i3) < len(REFS) and sel(j0, j1, j2, j3) < len(REFS)
    post: _
    """
    return concrete(_values, sel(i0, i1, i2, i3), sel(j0, j1, j2, j3), 1 if k else 0)

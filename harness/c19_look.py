# C19 harness (Engine A): MATCH / INDEX on symbolic integer keys and indices;
# text, wildcard, table and criteria cases by boolean selectors.
from vlib.stubs import apply_common
apply_common()
from vlib.sel import sel, concrete
import numpy as np
import schedula as sh
import formulas.functions.look as L
from formulas.functions import get_functions, Error
from formulas.tokens.operand import XlError

NA, REF, VALUE = Error.errors['#N/A'], Error.errors['#REF!'], Error.errors['#VALUE!']
LEN = __LEN__            # key-vector length of the symbolic MATCH conditions (per generated copy)
CRIT = __CRIT__          # criterion index of criteria_ok (per generated copy)
F = get_functions()


def vec(keys):
    arr = np.empty(len(keys), object)
    for i, k in enumerate(keys):
        arr[i] = k
    return arr


def kmatch(keys, v, mode):
    n = len(keys)
    return L.xmatch(0, v, np.arange(1, n + 1), np.zeros(n, int), vec(keys), mode)


def last_pos(keys, pred):
    pos = None
    for i, k in enumerate(keys, 1):
        if pred(k):
            pos = i
    return NA if pos is None else pos


def match_asc_ok(k1: int, k2: int, k3: int, k4: int, k5: int, v: int) -> bool:
    """
    pre: k1 <= k2 <= k3 <= k4 <= k5
    post: _
    """
    # sorted ascending, match_type 1: the last key not greater than the lookup value
    keys = [k1, k2, k3, k4, k5][:LEN]
    return bool(kmatch(keys, v, 1) == last_pos(keys, lambda k: k <= v))


def match_desc_ok(k1: int, k2: int, k3: int, k4: int, k5: int, v: int) -> bool:
    """
    pre: k1 >= k2 >= k3 >= k4 >= k5
    post: _
    """
    # sorted descending, match_type -1: the last key not smaller than the lookup value
    keys = [k1, k2, k3, k4, k5][:LEN]
    return bool(kmatch(keys, v, -1) == last_pos(keys, lambda k: k >= v))


def match_exact_ok(k1: int, k2: int, k3: int, k4: int, k5: int, v: int) -> bool:
    """
    pre: all(-3 <= k <= 3 for k in (k1, k2, k3, k4, k5))
    post: _
    """
    # arbitrary keys with duplicates, match_type 0: the FIRST equal element
    keys = [k1, k2, k3, k4, k5][:LEN]
    want = NA
    for i, k in enumerate(keys, 1):
        if k == v:
            want = i
            break
    return bool(kmatch(keys, v, 0) == want)


# ---- INDEX ------------------------------------------------------------------
def index_ok(r0: bool, r1: bool, c0: bool, c1: bool, row: int, col: int) -> bool:
    """
    pre: sel(r0, r1) < 3 and sel(c0, c1) < 3
    pre: -2 <= row <= 5 and -2 <= col <= 5 and row != 0 and col != 0
    post: _
    """
    # array shape by selectors (1..3 x 1..3), row / column symbolic; element tags r*10+c
    nr, nc = 1 + sel(r0, r1), 1 + sel(c0, c1)
    arr = np.empty((nr, nc), object)
    for i in range(nr):
        for j in range(nc):
            arr[i, j] = (i + 1) * 10 + (j + 1)
    got = L._index([arr], row, col, 1, False, False)
    if row < 0 or col < 0:
        return got is VALUE
    if row > nr or col > nc:
        return got is REF
    return bool(got == row * 10 + col)


# ---- text keys, mixed types, wildcards (selectors; public MATCH) ----------------
TEXTS = ['apple', 'Apple', 'APRICOT', 'b?', 'b*', 'banana', 'b~*', 'by', 'B', '?', 'b??', '*a']
MIXED = [3, 'apple', True, 'Banana', 3, sh.EMPTY, 'b', 'BY', 'b*', False, 'apple']


def wild(pattern, text):
    """Excel wildcards: ? one character, * any run, ~ escapes; case-insensitive"""
    p, t = pattern.upper(), text.upper()

    def go(i, j):
        if i == len(p):
            return j == len(t)
        if p[i] == '~' and i + 1 < len(p) and p[i + 1] in '*?~':
            return j < len(t) and t[j] == p[i + 1] and go(i + 2, j + 1)
        if p[i] == '*':
            return any(go(i + 1, k) for k in range(j, len(t) + 1))
        if p[i] == '?':
            return j < len(t) and go(i + 1, j + 1)
        return j < len(t) and t[j] == p[i] and go(i + 1, j + 1)
    return go(0, 0)


def _match_text(k):
    key = TEXTS[k]
    got = np.ravel(F['MATCH'](key, np.asarray([MIXED], object), 0))[0]
    want = NA
    for i, e in enumerate(MIXED, 1):
        if isinstance(e, str) and e is not sh.EMPTY and wild(key, e):
            want = i
            break
    return bool(got == want) if not isinstance(want, XlError) else got is want


def match_text_ok(k0: bool, k1: bool, k2: bool, k3: bool) -> bool:
    """
    pre: sel(k0, k1, k2, k3) < len(TEXTS)
    post: _
    """
    return concrete(_match_text, sel(k0, k1, k2, k3))


SORTED_TEXT = ['apple', 'Banana', 'cherry', 'Damson', 'fig']
LOOK_TEXT = ['apple', 'APPLE', 'blueberry', 'Cherry', 'aardvark', 'zebra', 'damson', 'Elder', 'banana', 'FIG']


def _match_text_approx(k, desc, n):
    # approximate modes on text keys: compared case-insensitively like the exact mode
    keys = SORTED_TEXT[:n]
    if desc:
        keys = keys[::-1]
    v = LOOK_TEXT[k]
    got = np.ravel(F['MATCH'](v, np.asarray([keys], object), -1 if desc else 1))[0]
    want = last_pos(keys, (lambda x: x.upper() >= v.upper()) if desc else (lambda x: x.upper() <= v.upper()))
    return bool(got == want) if not isinstance(want, XlError) else got is want


def match_text_approx_ok(k0: bool, k1: bool, k2: bool, k3: bool, desc: bool, n0: bool, n1: bool) -> bool:
    """
    pre: sel(k0, k1, k2, k3) < len(LOOK_TEXT)
    post: _
    """
    return concrete(_match_text_approx, sel(k0, k1, k2, k3), True if desc else False, 2 + sel(n0, n1))


def _match_types(k):
    # exact match looks only at elements of the key's own type: 3 (number), TRUE, FALSE, text
    key = [3, True, False, 'banana', 4, 'x'][k]
    got = np.ravel(F['MATCH'](key, np.asarray([MIXED], object), 0))[0]
    want = NA
    for i, e in enumerate(MIXED, 1):
        if e is sh.EMPTY:
            continue
        same = (isinstance(e, bool) == isinstance(key, bool)) and (isinstance(e, str) == isinstance(key, str))
        if same and (e.upper() == key.upper() if isinstance(key, str) else e == key):
            want = i
            break
    return bool(got == want) if not isinstance(want, XlError) else got is want


def match_types_ok(k0: bool, k1: bool, k2: bool) -> bool:
    """
    pre: sel(k0, k1, k2) < 6
    post: _
    """
    return concrete(_match_types, sel(k0, k1, k2))


# ---- LOOKUP / VLOOKUP / HLOOKUP = INDEX of MATCH --------------------------------
FIRST = [[1, 3, 5], [2, 2, 9], [-1, 0, 4], ['a', 'c', 'e'], [1, 'b', True]]
KEYS = [0, 1, 2, 3, 4, 5, 6, 'a', 'b', 'd', True, 9.5]


def _lookup(f, k, col, exact, wide=False):
    first, key = FIRST[f], KEYS[k]
    if wide:        # more columns than rows
        table = np.asarray([[first[i], 'r%d' % i, i * 1.5, 'w%d' % i] for i in range(2)], object)
    else:
        table = np.asarray([[first[i], 'r%d' % i, i * 1.5] for i in range(3)], object)
    mode = 0 if exact else 1
    pos = np.ravel(F['MATCH'](key, table[:, :1], mode))[0]
    want = pos if isinstance(pos, XlError) else np.ravel(F['INDEX'](table, pos, col))[0]
    ncol = table.shape[1]
    if col > ncol:
        want = REF
    got_v = np.ravel(F['VLOOKUP'](key, table, col, not exact))[0]
    got_h = np.ravel(F['HLOOKUP'](key, table.T, col, not exact))[0]
    ok = all((g is want) if isinstance(want, XlError) else bool(g == want and type(g) == type(want)) for g in (got_v, got_h))
    if not exact:
        # the last argument left out means approximate match (sorted data), as with TRUE / 1
        d_v = np.ravel(F['VLOOKUP'](key, table, col))[0]
        d_h = np.ravel(F['HLOOKUP'](key, table.T, col))[0]
        ok = ok and all((g is want) if isinstance(want, XlError) else bool(g == want and type(g) == type(want)) for g in (d_v, d_h))
        d_m = np.ravel(F['MATCH'](key, table[:, :1]))[0]
        ok = ok and ((d_m is pos) if isinstance(pos, XlError) else bool(d_m == pos))
    if col <= ncol and not exact:
        got_l = np.ravel(F['LOOKUP'](key, table[:, 0], table[:, col - 1]))[0]
        ok = ok and ((got_l is want) if isinstance(want, XlError) else bool(got_l == want))
    return bool(ok)


def lookup_ok(f0: bool, f1: bool, f2: bool, k0: bool, k1: bool, k2: bool, k3: bool, c0: bool, c1: bool, c2: bool,
              exact: bool, wide: bool) -> bool:
    """
    pre: sel(f0, f1, f2) < len(FIRST) and sel(k0, k1, k2, k3) < len(KEYS) and sel(c0, c1, c2) < 5
    post: _
    """
    return concrete(_lookup, sel(f0, f1, f2), sel(k0, k1, k2, k3), 1 + sel(c0, c1, c2), True if exact else False,
                    True if wide else False)


# ---- COUNTIF / SUMIF / AVERAGEIF --------------------------------------------------
ELEMS = [1, 5, 7.5, -2, 'a', 'ab', 'b', True, False, sh.EMPTY]
CRITERIA = ['>3', '<5', '>=5', '<=5', '<>5', '=5', 5, 'a', 'a*', '?b', '<>a', True, '>a']


def crit_spec(c):
    """(type, predicate) of a criterion, compared within its own type"""
    op, rest = '=', c
    if isinstance(c, str):
        for k in ('>=', '<=', '<>', '>', '<', '='):
            if c.startswith(k) and c != k:
                op, rest = k, c[len(k):]
                break
        try:
            rest = float(rest)
        except ValueError:
            pass
    cmpf = {'=': lambda a, b: a == b, '<>': lambda a, b: a != b, '>': lambda a, b: a > b, '<': lambda a, b: a < b,
            '>=': lambda a, b: a >= b, '<=': lambda a, b: a <= b}[op]
    if isinstance(rest, bool):
        return 'bool', lambda e: cmpf(e, rest)
    if isinstance(rest, (int, float)):
        return 'num', lambda e: cmpf(e, rest)
    if op == '=' and any(ch in rest for ch in '*?'):
        return 'text', lambda e: wild(rest, e)
    return 'text', lambda e: cmpf(e, rest)


def kind(e):
    if e is sh.EMPTY:
        return 'text'            # a blank cell is seen as empty text by the criteria functions
    if isinstance(e, bool):
        return 'bool'
    return 'text' if isinstance(e, str) else 'num'


def _criteria(i, j, k):
    elems = [ELEMS[i], ELEMS[j], ELEMS[k], 2]
    sums = [10, 20, 40, 80]
    crit = CRITERIA[CRIT]
    t, pred = crit_spec(crit)
    sel_ = [kind(e) == t and pred('' if e is sh.EMPTY else e) for e in elems]
    rng = np.asarray([elems], object)
    n = np.ravel(F['COUNTIF'](rng, crit))[0]
    s = np.ravel(F['SUMIF'](rng, crit, np.asarray([sums], object)))[0]
    a = np.ravel(F['AVERAGEIF'](rng, crit, np.asarray([sums], object)))[0]
    want_n = sum(sel_)
    want_s = sum(x for x, b in zip(sums, sel_) if b)
    if n != want_n or s != want_s:
        return False
    if want_n == 0:
        return isinstance(a, XlError)
    return bool(abs(a - want_s / want_n) < 1e-9)


def criteria_ok(i0: bool, i1: bool, i2: bool, i3: bool, j0: bool, j1: bool, j2: bool, j3: bool,
                k0: bool, k1: bool, k2: bool, k3: bool) -> bool:
    """
    pre: sel(i0, i1, i2, i3) < len(ELEMS) and sel(j0, j1, j2, j3) < len(ELEMS) and sel(k0, k1, k2, k3) < len(ELEMS)
    post: _
    """
    return concrete(_criteria, sel(i0, i1, i2, i3), sel(j0, j1, j2, j3), sel(k0, k1, k2, k3))

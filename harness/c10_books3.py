# C10 harness, workbook level, third family (tier S): cycles that run THROUGH A RANGE.
# B1 reads the two-cell range C1:C2 (plainly or inside an IF branch), C1 and C2 may refer
# back to B1 (plainly or guarded), so one or two cycles pass through the same range node.
# Oracle and classification are the ones of the second family (c10_books2.py) with one more
# expression kind: ('rng', add) = SUM(C1:C2)+add, which refers to C1 and to C2.
from vlib.stubs import apply_common
apply_common()
from vlib.sel import sel, concrete
import itertools
import numpy as np
import formulas
from formulas.tokens.operand import XlError
import hashref

P = "'[b]S'!"
KB = __KB__               # expression index of B1, fixed per generated copy
KNOWN_SHARED_RANGE = __KNOWN__   # known finding C10-two-cycles-one-range is excluded (True) or demanded (False)

EB = [('rng', 0), ('if', 'A1', ('rng', 0), ('c', 1)), ('if', 'A1', ('c', 1), ('rng', 2)),
      ('if', 'A1', ('rng', 0), ('if', 'A2', ('r', 'C1', 0), ('c', 2)))]
EC = [('c', 10), ('r', 'B1', 0), ('if', 'A2', ('r', 'B1', 0), ('c', 3))]
ED = [('c', 20), ('r', 'B1', 1), ('if', 'A2', ('c', 4), ('r', 'B1', 0))]


def text(e):
    if e[0] == 'c':
        return str(e[1])
    if e[0] == 'r':
        return '(%s%s+%d)' % (P, e[1], e[2])
    if e[0] == 'rng':
        return '(SUM(%sC1:C2)+%d)' % (P, e[1])
    return 'IF(%s%s,%s,%s)' % (P, e[1], text(e[2]), text(e[3]))


def refs(e, conds=()):
    if e[0] == 'c':
        return []
    if e[0] == 'r':
        return [(e[1], conds)]
    if e[0] == 'rng':
        return [('C1', conds), ('C2', conds)]
    return refs(e[2], conds + ((e[1], True),)) + refs(e[3], conds + ((e[1], False),))


def lazy(exprs, guards):
    def ev(e, visiting):
        if e[0] == 'c':
            return e[1]
        if e[0] == 'r':
            v = cell(e[1], visiting)
            return v if isinstance(v, str) else v + e[2]
        if e[0] == 'rng':
            a, b = cell('C1', visiting), cell('C2', visiting)
            return 'CIRC' if isinstance(a, str) or isinstance(b, str) else a + b + e[1]
        return ev(e[2] if guards[e[1]] else e[3], visiting)

    def cell(c, visiting):
        if c in visiting:
            return 'CIRC'
        return ev(exprs[c], visiting | {c})
    return {c: cell(c, frozenset()) for c in exprs}


def classify(exprs, guards):
    """'acyclic' | 'clean' (every cycle holds an unselected lazy edge and no selected one: must
    resolve) | 'free'"""
    edges = {}
    for c, e in exprs.items():
        for dst, conds in refs(e):
            edges.setdefault((c, dst), []).append((bool(conds), all(guards[g] == b for g, b in conds)))
    cells = sorted(exprs)
    status = 'acyclic'
    for k in (2, 3):
        for sub in itertools.permutations(cells, k):
            if sub[0] != min(sub):
                continue
            pairs = [(sub[i], sub[(i + 1) % k]) for i in range(k)]
            if not all(p in edges for p in pairs):
                continue
            for combo in itertools.product(*[edges[p] for p in pairs]):
                has_unsel = any(l and not s for l, s in combo)
                has_sel = any(l and s for l, s in combo)
                if has_unsel and not has_sel:
                    status = 'clean' if status in ('acyclic', 'clean') else status
                else:
                    status = 'free'
    return status


def scalar(v):
    v = v.value if hasattr(v, 'value') else v
    return np.ravel(v)[0] if isinstance(v, np.ndarray) else v


CELLS = ['A1', 'A2', 'B1', 'C1', 'C2', 'E1', 'F1', 'G1']


def outcome(sol):
    out = {}
    for c in CELLS:
        v = scalar(sol[P + c]) if P + c in sol else 'MISSING'
        out[c] = str(v) if isinstance(v, (str, XlError)) else float(v)
    return out


def build(kb, kc, kd, g1, g2):
    exprs = {'B1': EB[kb], 'C1': EC[kc], 'C2': ED[kd]}
    d = {P + 'A1': g1, P + 'A2': g2, P + 'F1': 5, P + 'G1': '=%sF1*2' % P, P + 'E1': '=%sB1+10' % P}
    for c, e in exprs.items():
        d[P + c] = e[1] if e[0] == 'c' else '=' + text(e)
    return exprs, d


def solve(d, order=0):
    return formulas.ExcelModel().from_dict(hashref.reorder(d, order)).finish(circular=True).calculate()


def all_outcomes():
    return {'%d,%d,%d,%d' % (kc, kd, g1, g2): outcome(solve(build(KB, kc, kd, bool(g1), bool(g2))[1]))
            for kc in range(3) for kd in range(3) for g1 in (0, 1) for g2 in (0, 1)}


def ncycles(exprs):
    """number of structural elementary cycles (parallel references count separately)"""
    edges = {}
    for c, e in exprs.items():
        for dst, conds in refs(e):
            edges[(c, dst)] = edges.get((c, dst), 0) + 1
    n = 0
    cells = sorted(exprs)
    for k in (2, 3):
        for sub in itertools.permutations(cells, k):
            if sub[0] == min(sub):
                m = 1
                for i in range(k):
                    m *= edges.get((sub[i], sub[(i + 1) % k]), 0)
                n += m
    return n


def _book(kb, kc, kd, g1, g2):
    exprs, d = build(kb, kc, kd, g1, g2)
    guards = {'A1': g1, 'A2': g2}
    sol = solve(d)
    base = outcome(sol)
    # known finding C10-cycles-sharing-a-range: the formula that reads the range lies on two or more cycles
    known = bool(KNOWN_SHARED_RANGE) and ncycles(exprs) >= 2
    if not known:
        if any(outcome(solve(d, order)) != base for order in (1, 2, 3)):
            return False                     # the outcome does not depend on the order the cells were added
        ref = hashref.reference(__file__)
        if ref is not None and ref['%d,%d,%d,%d' % (kc, kd, 1 if g1 else 0, 1 if g2 else 0)] != base:
            return False                     # ... nor on the hash seed
    want, cls = lazy(exprs, guards), classify(exprs, guards)
    b = want['B1']
    want['E1'] = b if isinstance(b, str) else b + 10
    if P + 'G1' not in sol or scalar(sol[P + 'G1']) != 10:
        return False
    for c in ('B1', 'C1', 'C2', 'E1'):
        if P + c not in sol:
            return False                     # every cell gets a value (termination with a result)
        got, w = scalar(sol[P + c]), want[c]
        if cls in ('acyclic', 'clean'):
            if isinstance(got, XlError) or float(got) != float(w):
                if not (known and cls == 'clean' and isinstance(got, XlError)):
                    return False
        elif w == 'CIRC':
            if not isinstance(got, XlError):
                return False                 # lazily unavoidable: an error, never an ordinary value
        elif not isinstance(got, XlError) and float(got) != float(w):
            return False                     # an ordinary value that is reported is the lazy one
    return True


def book3_ok(c0: bool, c1: bool, d0: bool, d1: bool, g1: bool, g2: bool) -> bool:
    """
    pre: sel(c0, c1) < 3 and sel(d0, d1) < 3
    post: _
    """
    return concrete(_book, KB, sel(c0, c1), sel(d0, d1), True if g1 else False, True if g2 else False)


if hashref.child_mode(__file__):
    hashref.emit(all_outcomes())

# C13 harness.  Kernel level (Engine A, symbolic): the impure wrapper.  Workbook level
# (tier S): formula shape, way of obtaining the executable model and the number of
# calls are boolean selectors; the clock and the random source are replaced by the
# harness (their documented contracts: a time that advances, a number in [0, 1)).
from vlib.stubs import apply_common
apply_common()
from vlib.sel import sel, concrete
import copy
import datetime as _dt
import types
import numpy as np
import schedula as sh
import formulas
import formulas.functions as F
import formulas.functions.date as D

P = "'[b]S'!"


class Clock:
    t = _dt.datetime(2020, 1, 1, 12, 0, 0)
    n = 0


class FakeDT(_dt.datetime):
    @classmethod
    def now(cls, tz=None):
        return Clock.t


def _rand(*a):
    Clock.n += 1
    return (Clock.n * 0.137) % 1


def install_env():
    D.datetime = types.SimpleNamespace(datetime=FakeDT, timedelta=_dt.timedelta, date=_dt.date)
    np.random.rand = _rand


def tick():
    Clock.t += _dt.timedelta(days=1, seconds=3661)


def impure_wrapper_ok(compiling: bool, a: int, b: int) -> bool:
    """
    post: _
    """
    # no value while compiling; otherwise the call goes through with the same arguments
    calls = []

    def f(x, y=0):
        calls.append((x, y))
        return x - y
    w = F.wrap_impure_func(f)
    r = w(compiling, a, y=b)
    if compiling:
        return r is sh.NONE and calls == []
    return r == a - b and calls == [(a, b)]


FORMULAS = [
    '=NOW()', '=TODAY()', '=RAND()', '=RANDBETWEEN(1,1000000)',
    '=IF(TRUE,NOW(),1)', '=1+NOW()*2', '=SUM(1,NOW(),2)', '=IF(%sA2>0,RAND(),2)' % P,
    '=IFERROR(NOW()/1,0)', '=MAX(1,RAND()+5)', '=-TODAY()', '=NOW()&"x"',
    '=IF(FALSE,1,RANDBETWEEN(5,900000))', '=ROUND(NOW(),3)', '=YEAR(TODAY())*1000+DAY(TODAY())', '=(RAND()+1)^2',
]


def fresh_values(run, calls):
    """values of successive calls with the clock / random source advanced in between"""
    out = []
    for _ in range(calls):
        out.append(run())
        tick()
    return out


def _volatile(fi, how, calls):
    install_env()
    f = FORMULAS[fi]
    d = {P + 'A2': 1, P + 'A1': f, P + 'B1': '=%sA1' % P, P + 'C1': '=IF(TRUE,%sA1,0)' % P, P + 'D1': '=%sA2+1' % P,
         P + 'A9': 0, P + 'R1': '=SUM(%sA1:B1,%sA9)/2' % (P, P), P + 'R2': '=MAX(%sA1:B1)+0' % P}
    m = formulas.ExcelModel().from_dict(d).finish(complete=False)

    def val(v):
        v = v.value if hasattr(v, 'value') else v
        return np.ravel(v)[0] if isinstance(v, np.ndarray) else v

    def three(sol):
        a, b, c = (val(sol[P + k]) for k in ('A1', 'B1', 'C1'))
        if isinstance(a, (int, float)) and not isinstance(a, bool):
            # cells reaching the volatile cell THROUGH A RANGE see the same single value
            r1, r2 = val(sol[P + 'R1']), val(sol[P + 'R2'])
            if not all(isinstance(r, (int, float)) and abs(r - a) < 1e-9 for r in (r1, r2)):
                return (a, 'range sees %r / %r' % (r1, r2), c)
        return a, b, c
    if how == 0:                                         # the loaded model
        run = lambda: three(m.calculate())
    elif how == 1:                                       # compiled to a function (volatile cell does not depend on the input)
        fn = m.compile([P + 'A2'], [P + 'A1', P + 'B1', P + 'C1', P + 'R1', P + 'R2'])
        run = lambda: three(dict(zip([P + k for k in ('A1', 'B1', 'C1', 'R1', 'R2')], fn(1))))
    elif how == 2:                                       # copied
        m2 = copy.deepcopy(m)
        run = lambda: three(m2.calculate())
    elif how == 3:                                       # imported from JSON
        m3 = formulas.ExcelModel().from_dict(m.to_dict()).finish(complete=False)
        run = lambda: three(m3.calculate())
    elif how == 4:                                       # one formula compiled alone
        g = formulas.Parser().ast(f)[1].compile()
        n = len(g.inputs)
        run = lambda: (val(g(*([1] * n))),) * 3
    elif how == 5:                                       # compiled, volatile cell downstream of the input
        fn = m.compile([P + 'A1'], [P + 'B1'])
        return val(fn(7)) == 7                           # an overridden volatile cell is not re-evaluated
    else:                                                # calculated with an unrelated override, after an earlier calculation
        m.calculate()
        run = lambda: three(m.calculate(inputs={P + 'A2': 3}))
    vals = fresh_values(run, calls)
    for a, b, c in vals:
        if not (a == b == c):
            return False                                 # every cell referring to the volatile cell sees ONE value
        if isinstance(a, (formulas.XlError,)):
            return False
    firsts = [v[0] for v in vals]
    if len(set(map(str, firsts))) != len(firsts):
        return False                                     # evaluated afresh on every calculation / call: nothing frozen
    if 'RANDBETWEEN(1,1000000)' in f:
        return all(float(x).is_integer() and 1 <= x <= 1000000 for x in firsts)
    if f == '=RAND()':
        return all(0 <= x < 1 for x in firsts)
    return True


def volatile_ok(f0: bool, f1: bool, f2: bool, f3: bool, h0: bool, h1: bool, h2: bool, c0: bool) -> bool:
    """
    pre: sel(h0, h1, h2) < 7
    post: _
    """
    return concrete(_volatile, sel(f0, f1, f2, f3), sel(h0, h1, h2), 2 + (1 if c0 else 0))

"""Reference semantics for C01/C09/C18, written from the property statements.

Trees:  ('num', text) | ('str', text) | ('ref', text) | ('err', text) | ('empty',)
        ('bin', op, l, r) | ('neg', sign, x) | ('pct', x)
        ('fun', NAME, [args]) | ('arr', [[cells]]) | ('par', x)  (explicit parentheses)

"comparisons bind loosest, then &, then + -, then * /, then ^, then postfix %,
then the unary sign; binary operators of equal rank group left to right"
"""

BIN_OPS = ['=', '<', '>', '<=', '>=', '<>', '&', '+', '-', '*', '/', '^']
RANK = {'=': 1, '<': 1, '>': 1, '<=': 1, '>=': 1, '<>': 1, '&': 2, '+': 3, '-': 3,
        '*': 4, '/': 4, '^': 5, '%': 6, 'u-': 7, 'u+': 7, ':': 8, ' ': 8, ',': 8}
ARITY = {k: 2 for k in RANK}
ARITY.update({'%': 1, 'u-': 1, 'u+': 1})
REPS = ['=', '&', '+', '*', '^', '<>', '-', '/']   # one or two per rank


def rank(t):
    k = t[0]
    if k == 'bin':
        return RANK[t[1]]
    if k == 'neg':
        return 7
    if k == 'pct':
        return 6
    return 99


def full(t):
    """the statement's 'fully parenthesised rendering' (= exported text)"""
    k = t[0]
    if k in ('num', 'err'):
        return t[1]
    if k == 'str':
        return '"%s"' % t[1]
    if k == 'ref':
        return t[1].upper().replace('$', '')
    if k == 'empty':
        return ''
    if k == 'bin':
        op = t[1]
        if op in (':', ' ', ','):
            return '(%s%s %s)' % (full(t[2]), op.strip(' '), full(t[3]))
        return '(%s %s %s)' % (full(t[2]), op, full(t[3]))
    if k == 'neg':
        return t[1] + full(t[2])
    if k == 'pct':
        return full(t[1]) + '%'
    if k == 'fun':
        return '%s(%s)' % (t[1].upper(), ', '.join(full(a) for a in t[2]))
    if k == 'par':
        return full(t[1])
    if k == 'arr':
        return 'ARRAY(%s)' % ', '.join('ARRAY(%s)' % ', '.join(full(c) for c in row) for row in t[1])
    raise ValueError(t)


def spell(t, redundant=False, ws='', lower=False):
    """one concrete spelling: minimal parentheses by the statement's ranks, or
    a redundant pair around every binary node; `ws` inserted around binary
    operators and separators; function names / refs in lower case on request"""
    k = t[0]
    if k in ('num', 'err', 'empty'):
        return t[1] if k != 'empty' else ''
    if k == 'str':
        return '"%s"' % t[1]
    if k == 'ref':
        return t[1].lower() if lower else t[1]
    if k == 'bin':
        op = t[1]
        l, r = t[2], t[3]
        ls, rs = spell(l, redundant, ws, lower), spell(r, redundant, ws, lower)
        if redundant or rank(l) < RANK[op]:
            ls = '(%s)' % ls if l[0] in ('bin', 'neg', 'pct') else ls
        if redundant or rank(r) <= RANK[op]:
            rs = '(%s)' % rs if r[0] in ('bin', 'neg', 'pct') else rs
        if op == ' ':
            return ls + ' ' + rs
        return ls + ws + op + ws + rs
    if k == 'neg':
        x = t[2]
        xs = spell(x, redundant, ws, lower)
        if redundant or rank(x) < 7:
            xs = '(%s)' % xs if x[0] in ('bin', 'neg', 'pct') else xs
        return t[1] + xs
    if k == 'pct':
        x = t[1]
        xs = spell(x, redundant, ws, lower)
        if redundant or rank(x) < 6:
            xs = '(%s)' % xs if x[0] in ('bin', 'neg', 'pct') else xs
        return xs + '%'
    if k == 'fun':
        name = t[1].lower() if lower else t[1]
        return '%s(%s)' % (name, (ws + ',' + ws).join(spell(a, redundant, ws, lower) for a in t[2]))
    if k == 'par':
        return '(%s)' % spell(t[1], redundant, ws, lower)
    if k == 'arr':
        return '{%s}' % (ws + ';' + ws).join((ws + ',' + ws).join(spell(c, redundant, ws, lower) for c in row)
                                               for row in t[1])
    raise ValueError(t)


def has_sign_run(text):
    """spelling class of the recorded finding C01-sign-run: two sign characters
    in a row (blanks between them allowed)"""
    prev = False
    for ch in text:
        if ch in '+-':
            if prev:
                return True
            prev = True
        elif ch != ' ':
            prev = False
    return False

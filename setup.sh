#!/bin/sh
# Offline bootstrap of the overlay interpreter used by every check:
# /venv (repo's own environment, untouched) + crosshair-tool, z3-solver, cvc5
# from the local wheelhouse.  Idempotent; ~20 s the first time.
set -e
cd "$(dirname "$0")"
V=/verif/.venv
if [ ! -x "$V/bin/python" ] || ! "$V/bin/python" -c "import crosshair, z3, formulas, schedula" 2>/dev/null; then
    rm -rf "$V"
    /venv/bin/python -m venv "$V"
    SP=$("$V/bin/python" -c "import sysconfig; print(sysconfig.get_paths()['purelib'])")
    printf "import site; site.addsitedir('/venv/lib/python3.12/site-packages')\n" > "$SP/_verif_overlay.pth"
    PIP_NO_INDEX=1 "$V/bin/pip" install -q --no-index --find-links /opt/veriftools/wheels crosshair-tool z3-solver cvc5 >/dev/null
fi
"$V/bin/python" -c "import crosshair, z3, formulas, schedula, os; assert os.path.realpath(formulas.__file__).startswith('/repo/'), formulas.__file__"
mkdir -p /verif/.work /verif/evidence /verif/replays
echo "setup ok"

"""Engine C - the library's regular expressions as z3 regexes.

`translate(pattern, flags)` parses a pattern of the third-party `regex` module
(the subset `formulas` uses) with CPython's own `re._parser` after a light
normalisation, and builds a z3 regular expression in continuation-passing
style so that look-aheads become intersections with the language of the rest
of the input:      T(A (?!X) B, K) = T(A, T(B, K) & ~(T(X, eps) . Sigma*)).

`lang_match(p)` = { s | p.match(s) succeeds }  (prefix match, rest arbitrary)
`lang_group(p, name)` = language of the named group's own sub-pattern (an
over-approximation of what the group can capture).

Atomic groups are translated as plain groups: that can only ENLARGE the
language, so results are used only where that direction is sound, and every
witness is replayed on the real regex.  Alphabet: ASCII (stated bound).
"""
import re
import re._constants as C
import re._parser as P
import z3

S = z3.StringSort()
RS = z3.ReSort(S)
ASCII_LO, ASCII_HI = 0, 127


def ch(lo, hi=None):
    return z3.Range(chr(lo), chr(hi if hi is not None else lo))


def lit(s):
    return z3.Re(z3.StringVal(s))


EPS = lit('')
ANY = ch(ASCII_LO, ASCII_HI)
ALL = z3.Star(ANY)
NONE = z3.Complement(ALL)      # over ASCII strings this is empty when intersected with ALL


def union(xs):
    xs = list(xs)
    if not xs:
        return z3.Intersect(ch(48), ch(49))     # empty language
    return xs[0] if len(xs) == 1 else z3.Union(*xs)


POSIX = {
    'alpha': 'a-zA-Z', 'alnum': 'a-zA-Z0-9', 'digit': '0-9', 'upper': 'A-Z', 'lower': 'a-z',
    'space': r' \t\n\r\f\v', 'punct': r'!-/:-@\[-`{-~', 'word': r'\w',
}


def normalise(pattern):
    """regex-module syntax -> something re._parser accepts, same language:
    POSIX classes expanded (ASCII), duplicate group names numbered."""
    for name, body in POSIX.items():
        pattern = pattern.replace('[:%s:]' % name, body)
    seen = {}

    def ren(m):
        n = m.group(1)
        seen[n] = seen.get(n, 0) + 1
        return '(?P<%s__%d>' % (n, seen[n])
    return re.sub(r'\(\?P<([A-Za-z_]\w*)>', ren, pattern)


def _class_item(op, av, icase):
    if op is C.LITERAL:
        return _lit_char(av, icase)
    if op is C.RANGE:
        lo, hi = av
        hi = min(hi, ASCII_HI)
        r = [ch(lo, hi)] if lo <= hi else []
        if icase:
            for a, b, d in ((65, 90, 32), (97, 122, -32)):
                l2, h2 = max(lo, a), min(hi, b)
                if l2 <= h2:
                    r.append(ch(l2 + d, h2 + d))
        return union(r)
    if op is C.CATEGORY:
        return _category(av)
    raise NotImplementedError('class item %r' % (op,))


def _category(av):
    digit = ch(48, 57)
    word = z3.Union(ch(48, 57), ch(65, 90), ch(97, 122), ch(95))
    space = union([ch(32), ch(9, 13)])
    m = {C.CATEGORY_DIGIT: digit, C.CATEGORY_WORD: word, C.CATEGORY_SPACE: space}
    if av in m:
        return m[av]
    neg = {C.CATEGORY_NOT_DIGIT: digit, C.CATEGORY_NOT_WORD: word, C.CATEGORY_NOT_SPACE: space}
    if av in neg:
        return z3.Intersect(ANY, z3.Complement(neg[av]))
    raise NotImplementedError('category %r' % (av,))


def _lit_char(code, icase):
    if code > ASCII_HI:
        raise NotImplementedError('non-ASCII literal')
    c = chr(code)
    if icase and c.isalpha():
        return z3.Union(lit(c.lower()), lit(c.upper()))
    return lit(c)


def _has_assert(seq):
    for op, av in seq:
        if op in (C.ASSERT, C.ASSERT_NOT):
            return True
        if op is C.SUBPATTERN and _has_assert(av[3]):
            return True
        if op is C.ATOMIC_GROUP and _has_assert(av):
            return True
        if op is C.BRANCH and any(_has_assert(b) for b in av[1]):
            return True
        if op in (C.MAX_REPEAT, C.MIN_REPEAT, C.POSSESSIVE_REPEAT) and _has_assert(av[2]):
            return True
    return False


class Translator:
    def __init__(self, flags=0):
        self.icase = bool(flags & re.IGNORECASE)
        self.dotall = bool(flags & re.DOTALL)
        self.groups = {}          # name -> parsed sub-sequence
        self.atomic = 0

    def seq(self, items, K):
        """regex for: items followed by continuation language K"""
        items = list(items)
        if not items:
            return K
        return self.node(items[0], lambda: self.seq(items[1:], K))

    def plain(self, items):
        return self.seq(items, EPS)

    def node(self, item, rest):
        op, av = item
        K = rest
        if op is C.LITERAL:
            return z3.Concat(_lit_char(av, self.icase), K())
        if op is C.NOT_LITERAL:
            return z3.Concat(z3.Intersect(ANY, z3.Complement(_lit_char(av, self.icase))), K())
        if op is C.ANY:
            a = ANY if self.dotall else z3.Intersect(ANY, z3.Complement(lit('\n')))
            return z3.Concat(a, K())
        if op is C.IN:
            neg = av and av[0][0] is C.NEGATE
            body = union(_class_item(o, a, self.icase) for o, a in (av[1:] if neg else av))
            cls = z3.Intersect(ANY, z3.Complement(body)) if neg else body
            return z3.Concat(cls, K())
        if op is C.SUBPATTERN:
            gid, add, dele, sub = av
            return self.seq(sub, K())
        if op is C.ATOMIC_GROUP:
            self.atomic += 1
            return self.seq(av, K())
        if op is C.BRANCH:
            k = K()
            return union(self.seq(b, k) for b in av[1])
        if op in (C.MAX_REPEAT, C.MIN_REPEAT, C.POSSESSIVE_REPEAT):
            lo, hi, sub = av
            if op is C.POSSESSIVE_REPEAT:
                self.atomic += 1
            if _has_assert(sub):
                if lo == 0 and hi == 1:       # X? with a look-around inside: K | X K
                    k = K()
                    return z3.Union(k, self.seq(sub, k))
                raise NotImplementedError('look-around inside a repeat')
            body = self.plain(sub)
            if hi is C.MAXREPEAT:
                rep = z3.Star(body) if lo == 0 else (z3.Plus(body) if lo == 1 else z3.Concat(z3.Loop(body, lo, lo), z3.Star(body)))
            elif lo == 0 and hi == 1:
                rep = z3.Option(body)
            else:
                rep = z3.Loop(body, lo, hi)
            return z3.Concat(rep, K())
        if op is C.ASSERT_NOT:
            direction, sub = av
            if direction != 1:
                raise NotImplementedError('look-behind')
            return z3.Intersect(K(), z3.Complement(self.seq(sub, ALL)))
        if op is C.ASSERT:
            direction, sub = av
            if direction != 1:
                raise NotImplementedError('look-behind')
            return z3.Intersect(K(), self.seq(sub, ALL))
        if op is C.AT:
            if av in (C.AT_BEGINNING, C.AT_BEGINNING_STRING):
                return K()        # patterns are only used with .match(): position 0
            if av in (C.AT_END, C.AT_END_STRING):
                return z3.Intersect(K(), EPS)
            raise NotImplementedError('anchor %r' % (av,))
        raise NotImplementedError('regex node %r' % (op,))


def parse(pattern, flags=0):
    pat = normalise(pattern)
    tree = P.parse(pat, flags & (re.IGNORECASE | re.DOTALL | re.VERBOSE))
    return tree


def _find_groups(tree, items, out):
    names = {v: k for k, v in tree.state.groupdict.items()}
    for op, av in items:
        if op is C.SUBPATTERN:
            gid, add, dele, sub = av
            if gid in names:
                out.setdefault(names[gid].split('__')[0], []).append(sub)
            _find_groups(tree, sub, out)
        elif op is C.ATOMIC_GROUP:
            _find_groups(tree, av, out)
        elif op is C.BRANCH:
            for b in av[1]:
                _find_groups(tree, b, out)
        elif op in (C.MAX_REPEAT, C.MIN_REPEAT, C.POSSESSIVE_REPEAT):
            _find_groups(tree, av[2], out)
        elif op in (C.ASSERT, C.ASSERT_NOT):
            _find_groups(tree, av[1], out)


def py_flags(rx):
    """flags of a compiled `regex` module pattern -> re flags (same bit values for I, S, X)"""
    f = 0
    import regex
    if rx.flags & regex.IGNORECASE:
        f |= re.IGNORECASE
    if rx.flags & regex.DOTALL:
        f |= re.DOTALL
    if rx.flags & regex.VERBOSE:
        f |= re.VERBOSE
    return f


def lang_match(rx):
    """{ s : rx.match(s) is not None } (over-approximated at atomic groups)"""
    flags = py_flags(rx)
    tree = parse(rx.pattern, flags)
    t = Translator(flags)
    return t.seq(list(tree), ALL), t


def lang_fullmatch(rx):
    flags = py_flags(rx)
    tree = parse(rx.pattern, flags)
    t = Translator(flags)
    return t.seq(list(tree), EPS), t


def lang_group(rx, name, alternative=None):
    """language of the sub-pattern of group `name` (union over its duplicate
    definitions); `alternative` = index of one top-level branch inside the group"""
    flags = py_flags(rx)
    tree = parse(rx.pattern, flags)
    found = {}
    _find_groups(tree, list(tree), found)
    subs = found[name]
    t = Translator(flags)
    outs = []
    for sub in subs:
        items = list(sub)
        if alternative is not None and len(items) == 1 and items[0][0] is C.BRANCH:
            items = list(items[0][1][1][alternative])
        outs.append(t.plain(items))
    return union(outs), t


def witness(lang, extra=None, timeout_ms=60000):
    """a string of the language (and satisfying `extra(s)`), or None / 'unknown'"""
    s = z3.String('w')
    sol = z3.Solver()
    sol.set('timeout', timeout_ms)
    sol.add(z3.InRe(s, lang))
    if extra is not None:
        sol.add(extra(s))
    r = str(sol.check())
    if r == 'sat':
        return sol.model()[s].as_string()
    return None if r == 'unsat' else 'unknown'

"""./run.sh <ID> <quick|thorough>   |   ./run.sh --replay <path>"""
import importlib
import os
import subprocess
import sys
import traceback

from .core import PLAIN_PY, pythonpath


def main(argv):
    if argv and argv[0] == '--replay':
        env = dict(os.environ, PYTHONPATH=pythonpath(), PYTHONWARNINGS='ignore')
        return subprocess.call([PLAIN_PY, argv[1]], env=env, cwd='/verif')
    pid = argv[0].upper()
    tier = argv[1] if len(argv) > 1 else os.environ.get('VERIF_TIER', 'quick')
    seed = int(os.environ.get('VERIF_SEED', '0') or 0)
    try:
        mod = importlib.import_module('checks.' + pid.lower())
    except ImportError:
        traceback.print_exc()
        print('no check for', pid)
        return 2
    try:
        return mod.run(tier, seed)
    except Exception:
        traceback.print_exc()
        print('[%s] harness error (exception in check driver)' % pid)
        return 2


if __name__ == '__main__':
    sys.exit(main(sys.argv[1:]))

"""Process pool for Engine B / C obligations: each task = one function of a
harness module run in its own interpreter (python -m vlib.symrun <module> <func> <json-args>)."""
import concurrent.futures as cf
import importlib
import json
import os
import re
import subprocess
import sys
import time
import traceback

from .core import Obligation, PY, ROOT, pythonpath

JOBS = int(os.environ.get('VERIF_JOBS', '16'))


def summarize(results, model_vars=None):
    """explore() results -> task result dict"""
    import z3
    n = len(results)
    sat = [r for r in results if r.verdict == 'sat']
    bad = [r for r in results if r.verdict in ('unknown', 'leak', 'abort')]
    vac = [r for r in results if r.verdict == 'vacuous']
    secs = sum(r.seconds for r in results)
    out = {'paths': n, 'queries': n, 'solver_seconds': round(secs, 2)}
    if sat:
        r = sat[0]
        cex = {}
        for name, var in (model_vars or {}).items():
            v = r.model.eval(var, model_completion=True)
            try:
                if z3.is_fp(v):
                    cex[name] = fp_value(v)
                elif z3.is_bv(v):
                    cex[name] = v.as_signed_long()
                elif z3.is_int(v):
                    cex[name] = v.as_long()
                elif z3.is_string(v):
                    cex[name] = v.as_string()
                elif z3.is_bool(v):
                    cex[name] = z3.is_true(v)
                else:
                    cex[name] = str(v)
            except Exception:
                cex[name] = str(v)
        out.update(status='counterexample', cex=cex,
                   detail='path %s outcome %s' % (r.trace, _short(r.outcome)))
    elif bad:
        out.update(status='inconclusive',
                   detail='; '.join(sorted({'%s: %s' % (r.verdict, r.note) for r in bad}))[:400])
    elif n == 0 or len(vac) == n:
        out.update(status='harness_error', detail='no feasible path reached the assertion (vacuous)')
    else:
        out.update(status='discharged', detail='%d paths, every query unsat' % n)
    return out


def _short(o):
    try:
        return ('%s:%r' % (o[0], o[1]))[:200]
    except Exception:
        return '?'


def fp_value(v):
    """z3 FPNumRef -> python float (exact)"""
    import z3
    import struct
    if z3.is_fp(v):
        s = z3.simplify(z3.fpToIEEEBV(v))
        return struct.unpack('>d', s.as_long().to_bytes(8, 'big'))[0]
    return float(str(v))


def _run(task):
    cmd = [PY, '-m', 'vlib.symrun', task['module'], task['func'], json.dumps(task.get('args', {}))]
    env = dict(os.environ, PYTHONPATH=pythonpath(os.path.join(ROOT, 'harness')), PYTHONWARNINGS='ignore',
               PYTHONHASHSEED='0')
    t0 = time.time()
    try:
        p = subprocess.run(cmd, capture_output=True, text=True, timeout=task.get('timeout', 600), env=env, cwd=ROOT)
        m = re.search(r'@@SYM@@(\{.*\})\s*$', p.stdout, re.S)
        if m:
            r = json.loads(m.group(1))
        else:
            r = {'status': 'inconclusive', 'detail': 'worker died: ' + (p.stderr or p.stdout)[-600:]}
    except subprocess.TimeoutExpired:
        r = {'status': 'inconclusive', 'detail': 'wall timeout %ss' % task.get('timeout', 600)}
    r['wall'] = round(time.time() - t0, 2)
    return r


def run_tasks(check, tasks):
    """tasks: dicts with name, module, func, args, timeout, bounds, and optionally
    replay (callable(cex) -> source of replay script) and finding (callable(cex) -> finding id)."""
    with cf.ThreadPoolExecutor(max_workers=JOBS) as ex:
        results = list(ex.map(_run, tasks))
    obs = []
    for t, r in zip(tasks, results):
        st, eng = r.get('status'), t.get('engine', 'symtrace/z3')
        paths, q = r.get('paths', 0), r.get('queries', 0)
        if st == 'discharged':
            obs.append(check.add(Obligation(t['name'], eng, t['bounds'], 'discharged', r.get('detail', ''),
                                            r['wall'], paths, q, sample='%s: %s' % (t['name'], t['bounds']))))
        elif st == 'counterexample':
            cex = r.get('cex', {})
            desc = '%s counterexample %s (%s)' % (t['name'], cex, r.get('detail', ''))
            if not t.get('replay'):
                obs.append(check.add(Obligation(t['name'], eng, t['bounds'], 'harness_error',
                                                'no replay defined: ' + desc, r['wall'], paths, q)))
                continue
            fid = t['finding'](cex) if t.get('finding') else None
            obs.append(check.report_counterexample(t['name'], eng, t['bounds'], t['replay'](cex), desc[:400],
                                                   r['wall'], paths, q, finding_id=fid))
        elif st == 'harness_error':
            obs.append(check.add(Obligation(t['name'], eng, t['bounds'], 'harness_error', r.get('detail', ''),
                                            r['wall'], paths, q)))
        else:
            obs.append(check.add(Obligation(t['name'], eng, t['bounds'], 'inconclusive', r.get('detail', '')[:400],
                                            r['wall'], paths, q)))
    return obs


def main():
    modname, func, args = sys.argv[1], sys.argv[2], json.loads(sys.argv[3])
    sys.setrecursionlimit(10000)
    try:
        mod = importlib.import_module(modname)
        out = getattr(mod, func)(**args)
    except BaseException as e:  # noqa
        out = {'status': 'inconclusive', 'detail': 'worker exception %s: %s | %s' % (
            type(e).__name__, e, traceback.format_exc()[-800:])}
    sys.stdout.write('\n@@SYM@@' + json.dumps(out, default=str) + '\n')


if __name__ == '__main__':
    main()

"""Engine A: CrossHair on harness modules, one process per condition, fanned
out over the cores.  Adds reachability twins, parses counterexamples, replays
them concretely (same harness module, plain interpreter, no CrossHair)."""
import ast
import concurrent.futures as cf
import json
import os
import re
import shutil
import subprocess
import tempfile
import textwrap
import time

from .core import Obligation, PY, ROOT, OUT, pythonpath

JOBS = int(os.environ.get('VERIF_JOBS', '16'))


def workdir():
    os.makedirs(os.path.join(OUT, '.work'), exist_ok=True)
    return tempfile.mkdtemp(prefix='xh-', dir=os.path.join(OUT, '.work'))


def condition_functions(source):
    """names of top-level functions whose docstring has a post: line"""
    out = []
    for node in ast.parse(source).body:
        if isinstance(node, ast.FunctionDef):
            doc = ast.get_docstring(node) or ''
            if re.search(r'^\s*post(\[.*\])?:', doc, re.M):
                out.append(node.name)
    return out


def add_twins(source):
    """For each condition function f append f__twin: same body and pre-lines,
    `post: False`.  It must be REFUTED (some path satisfies the preconditions and
    returns); otherwise f is vacuous."""
    tree = ast.parse(source)
    lines = source.splitlines()
    extra = []
    for node in tree.body:
        if not isinstance(node, ast.FunctionDef):
            continue
        doc = ast.get_docstring(node) or ''
        if not re.search(r'^\s*post(\[.*\])?:', doc, re.M):
            continue
        seg = lines[node.lineno - 1:node.end_lineno]
        text = '\n'.join(seg)
        text = re.sub(r'^def\s+%s\b' % re.escape(node.name), 'def %s__twin' % node.name,
                      text, count=1)
        new, seen = [], False
        for ln in text.splitlines():
            if re.match(r'^\s*post(\[.*\])?:', ln):
                if not seen:
                    new.append(re.match(r'^\s*', ln).group(0) + 'post: False')
                    seen = True
                continue
            if re.match(r'^\s*raises:', ln):
                continue
            new.append(ln)
        extra.append('\n'.join(new))
    return source + '\n\n# ---- reachability twins (generated) ----\n\n' + '\n\n'.join(extra) + '\n'


def hashseed_of(source):
    """interpreter hash seed a harness runs (and is replayed) under: a line `# PYTHONHASHSEED = n` in its source, default 0"""
    m = re.search(r'^# PYTHONHASHSEED = (\d+)\s*$', source, re.M)
    return m.group(1) if m else '0'


def _run_one(path, fname, tmo, ppt=None):
    # CrossHair's default per-path budget is sqrt(condition budget); a path cut
    # short is UNKNOWN for good, and 16 loaded cores make that common
    ppt = ppt or max(30.0, tmo / 3.0)
    cmd = [PY, '-m', 'vlib.xh_worker', path, fname, str(tmo)] + ([str(ppt)] if ppt else [])
    env = dict(os.environ, PYTHONPATH=pythonpath(os.path.dirname(path), os.path.join(ROOT, 'harness')), PYTHONWARNINGS='ignore',
               PYTHONHASHSEED=hashseed_of(open(path).read()))
    t0 = time.time()
    try:
        p = subprocess.run(cmd, capture_output=True, text=True, timeout=tmo * 1.6 + 60, env=env,
                           cwd=ROOT)
        m = re.search(r'@@XH@@(\{.*\})\s*$', p.stdout, re.S)
        if m:
            return json.loads(m.group(1))
        return {'function': fname, 'status': 'error', 'paths': 0, 'seconds': time.time() - t0,
                'messages': [{'state': 'NO_OUTPUT', 'message': (p.stderr or p.stdout)[-800:]}]}
    except subprocess.TimeoutExpired:
        return {'function': fname, 'status': 'timeout', 'paths': 0, 'seconds': time.time() - t0,
                'messages': [{'state': 'TIMEOUT', 'message': 'wall timeout'}]}


_CALL_RE = re.compile(r'when calling (\w+)\((.*?)\)(?: \(which (?:returns|raises) .*\))?\s*$', re.S)


def parse_call(message):
    """-> (funcname, argtext) from a CrossHair counterexample message"""
    m = _CALL_RE.search(message)
    if not m:
        return None, None
    return m.group(1), m.group(2)


REPLAY_TEMPLATE = '''\
# Replay of a CrossHair counterexample: runs the harness condition concretely
# (plain interpreter, no CrossHair) against /repo.  Exit 1 = violation reproduces.
import sys, os, importlib.util
if os.environ.get('PYTHONHASHSEED') != {hashseed!r}:     # same interpreter hash seed as the run that found it
    os.environ['PYTHONHASHSEED'] = {hashseed!r}
    os.execv(sys.executable, [sys.executable] + sys.argv)
sys.setrecursionlimit(5000)
sys.path.insert(0, '/verif/harness'); sys.path.insert(0, '/verif'); sys.path.insert(0, {hdir!r})
os.environ.setdefault('PYTHONWARNINGS', 'ignore')
import warnings; warnings.simplefilter('ignore')
spec = importlib.util.spec_from_file_location({mod!r}, {path!r})
H = importlib.util.module_from_spec(spec); sys.modules[{mod!r}] = H; spec.loader.exec_module(H)
def _cap(*a, **k): return a, k
try:
    args, kwargs = eval({call!r}, dict(vars(H), _cap=_cap))
except BaseException as e:
    print('cannot rebuild arguments', repr(e)); sys.exit(4)
fn = getattr(H, {fname!r})
import inspect, re
doc = fn.__doc__ or ''
b = inspect.signature(fn).bind(*args, **kwargs); b.apply_defaults()
env = dict(vars(H)); env.update(b.arguments)
for ln in doc.splitlines():
    m = re.match(r'^\\s*pre:\\s*(.*)$', ln)
    if m and not eval(m.group(1), env):
        print('precondition not met on replay:', m.group(1)); sys.exit(3)
allowed = tuple(eval(x.strip(), env) for ln in doc.splitlines()
                for m in [re.match(r'^\\s*raises:\\s*(.*)$', ln)] if m for x in m.group(1).split(',') if x.strip())
try:
    ret = fn(*args, **kwargs)
except allowed as e:
    print('allowed exception', repr(e)); sys.exit(0)
except Exception as e:
    print('REPRODUCED: %s raised %r' % ({fname!r}, e)); sys.exit(1)
env['_'] = ret; env['__return__'] = ret
for ln in doc.splitlines():
    m = re.match(r'^\\s*post(\\[.*\\])?:\\s*(.*)$', ln)
    if m and not eval(m.group(2), env):
        print('REPRODUCED: post %r false for %s%r -> %r' % (m.group(2), {fname!r}, args, ret)); sys.exit(1)
print('not reproduced: returns', repr(ret)); sys.exit(0)
'''


class Harness:
    """A harness = python source (PEP316 conditions over the live code)."""

    def __init__(self, check, name, source, keep_dir=None):
        self.check, self.name = check, name
        self.dir = keep_dir or workdir()
        self.persist_dir = os.path.join(OUT, 'replays', 'harness')
        self.path = os.path.join(self.dir, name + '.py')
        self.source = add_twins(textwrap.dedent(source))
        with open(self.path, 'w') as f:
            f.write(self.source)
        self.conds = [c for c in condition_functions(self.source) if not c.endswith('__twin')]

    def cleanup(self):
        shutil.rmtree(self.dir, ignore_errors=True)

    def persist(self):
        """keep a copy of the harness next to the replays (needed by replay scripts)"""
        os.makedirs(self.persist_dir, exist_ok=True)
        p = os.path.join(self.persist_dir, '%s_%s.py' % (self.check.pid, self.name))
        with open(p, 'w') as f:
            f.write(self.source)
        return p

    def replay_source(self, fname, argtext):
        p = self.persist()
        return REPLAY_TEMPLATE.format(hdir=os.path.dirname(p), mod=os.path.splitext(os.path.basename(p))[0],
                                      path=p, call='_cap(%s)' % argtext, fname=fname, hashseed=hashseed_of(self.source))

    def run(self, timeout, only=None, bounds=None, classify=None, ppt=None, twin_timeout=None,
            public_replay=None):
        """Run every condition (+ its twin) in parallel; add one Obligation per
        condition.  classify(fname, argtext, message) -> finding_id or None.
        public_replay(fname, argtext) -> replay source through the public API (optional)."""
        b = Batch()
        b.add(self, timeout, only, bounds, classify, ppt, twin_timeout, public_replay)
        return b.run()

    def _settle(self, c, r, t, bounds, classify, public_replay):
        b = (bounds or {}).get(c) if isinstance(bounds, dict) else bounds
        b = b or self._pre_text(c)
        msg = '; '.join(m['message'] for m in r['messages'])[:400]
        eng = 'crosshair'
        name = self.name + '.' + c
        if r['status'] == 'confirmed':
            if t['status'] == 'counterexample':
                return self.check.add(Obligation(
                    name, eng, b, 'discharged', 'Confirmed over all paths',
                    r['seconds'], r['paths'], r['paths'], sample='%s: %s' % (c, b)))
            if t['status'] in ('timeout', 'unknown', 'error'):
                return self.check.add(Obligation(
                    name, eng, b, 'inconclusive',
                    'confirmed but reachability twin inconclusive (%s)' % t['status'],
                    r['seconds'], r['paths']))
            return self.check.add(Obligation(
                name, eng, b, 'harness_error',
                'vacuous: twin status %s %s' % (t['status'], t['messages'][:1]),
                r['seconds'], r['paths']))
        if r['status'] == 'counterexample':
            cex = [m for m in r['messages'] if m['state'] in ('POST_FAIL', 'EXEC_ERR', 'POST_ERR')][0]
            fname, argtext = parse_call(cex['message'])
            if fname is None:
                return self.check.add(Obligation(
                    name, eng, b, 'inconclusive',
                    'unparsable counterexample: ' + cex['message'][:300], r['seconds'], r['paths']))
            fid = classify(c, argtext, cex['message']) if classify else None
            src = public_replay(c, argtext) if public_replay else None
            if src is None:
                src = self.replay_source(c, argtext)
            return self.check.report_counterexample(
                name, eng, b, src, cex['message'][:300], r['seconds'],
                r['paths'], r['paths'], finding_id=fid)
        if r['status'] in ('error', 'no_conditions'):
            # the harness itself could not be loaded / analysed: loud, never a silent pass
            tb = '; '.join(m.get('tb', '')[-300:] for m in r['messages'] if m.get('tb'))
            return self.check.add(Obligation(
                name, eng, b, 'harness_error', '%s: %s %s' % (r['status'], msg, tb), r['seconds'], r['paths']))
        return self.check.add(Obligation(
            name, eng, b, 'inconclusive', '%s: %s' % (r['status'], msg), r['seconds'], r['paths']))

    def _pre_text(self, c):
        m = re.search(r'def %s\(.*?"""(.*?)"""' % re.escape(c), self.source, re.S)
        if not m:
            return ''
        return ' and '.join(x.strip() for x in re.findall(r'^\s*pre:\s*(.*)$', m.group(1), re.M))[:500]


class Batch:
    """Conditions of several harnesses in one process pool (16 cores)."""

    def __init__(self):
        self.items = []

    def add(self, harness, timeout, only=None, bounds=None, classify=None, ppt=None,
            twin_timeout=None, public_replay=None):
        conds = [c for c in harness.conds if only is None or c in only]
        self.items.append((harness, conds, timeout, bounds, classify, ppt, twin_timeout, public_replay))
        return self

    def run(self):
        obs = []
        with cf.ThreadPoolExecutor(max_workers=JOBS) as ex:
            futs = {}
            # longest first
            for idx, (h, conds, tmo, *_rest) in sorted(enumerate(self.items), key=lambda x: -x[1][2]):
                ppt, ttmo = self.items[idx][5], self.items[idx][6]
                for c in conds:
                    futs[ex.submit(_run_one, h.path, c, tmo, ppt)] = (idx, c, False)
            for idx, (h, conds, tmo, *_rest) in enumerate(self.items):
                ttmo = self.items[idx][6]
                for c in conds:
                    futs[ex.submit(_run_one, h.path, c + '__twin', ttmo or min(tmo, 60))] = (idx, c, True)
            res, twin = {}, {}
            for f in cf.as_completed(futs):
                idx, c, is_twin = futs[f]
                (twin if is_twin else res)[(idx, c)] = f.result()
        for idx, (h, conds, tmo, bounds, classify, ppt, ttmo, public_replay) in enumerate(self.items):
            for c in conds:
                obs.append(h._settle(c, res[(idx, c)], twin[(idx, c)], bounds, classify, public_replay))
        return obs

"""Ordinal-arithmetic stand-ins for `datetime` / `calendar`, installed only inside
formulas.functions.date while Engine B (LIA mode) runs.  Four functions carry
the whole contract: ordinal(y,m,d), its inverse (fresh y,m,d constrained to be
the unique valid date with that ordinal), monthrange()[1], and date - date.
`validate()` checks them against the real datetime on seeded dates."""
import calendar as _calendar
import datetime as _datetime
import random
import z3
from . import symtrace as st

DBM = [0, 0, 31, 59, 90, 120, 151, 181, 212, 243, 273, 304, 334]
DIM = [0, 31, 28, 31, 30, 31, 30, 31, 31, 30, 31, 30, 31]


def _t(v):
    return v.t if isinstance(v, st.SInt) else z3.IntVal(int(v))


def _tbl(tab, m):
    e = z3.IntVal(tab[12])
    for k in range(11, 0, -1):
        e = z3.If(m == k, tab[k], e)
    return e


def leap(y):
    return z3.And(y % 4 == 0, z3.Or(y % 100 != 0, y % 400 == 0))


def dim(y, m):
    return _tbl(DIM, m) + z3.If(z3.And(m == 2, leap(y)), 1, 0)


def ordinal(y, m, d):
    y1 = y - 1
    return y1 * 365 + y1 / 4 - y1 / 100 + y1 / 400 + _tbl(DBM, m) + z3.If(z3.And(m > 2, leap(y)), 1, 0) + d


def valid(y, m, d):
    return z3.And(y >= 1, y <= 9999, m >= 1, m <= 12, d >= 1, d <= dim(y, m))


class SDate:
    """a date known by its ordinal (z3 Int)"""

    def __init__(self, o, ymd=None):
        self.o, self._ymd = o, ymd

    def _parts(self):
        if self._ymd is None:
            y, m, d = st.fresh('y', z3.IntSort()), st.fresh('m', z3.IntSort()), st.fresh('d', z3.IntSort())
            st.Ctx.cur.extra.append(z3.And(valid(y, m, d), ordinal(y, m, d) == self.o))
            self._ymd = (y, m, d)
        return self._ymd

    year = property(lambda s: st.SInt(s._parts()[0]))
    month = property(lambda s: st.SInt(s._parts()[1]))
    day = property(lambda s: st.SInt(s._parts()[2]))

    def __add__(self, td):
        return SDate(self.o + td.d)

    def __sub__(self, other):
        if isinstance(other, SDate):
            return STimedelta(self.o - other.o)
        return SDate(self.o - other.d)

    def toordinal(self):
        return st.SInt(self.o)


class STimedelta:
    def __init__(self, d):
        self.d = d
    days = property(lambda s: st.SInt(s.d))


class _DatetimeModule:
    """what formulas.functions.date uses of the datetime module"""

    class datetime:
        def __new__(cls, y, m, d, *rest):
            y, m, d = _t(y), _t(m), _t(d)
            # real datetime raises ValueError for an invalid date
            if not st.decide(valid(y, m, d)):
                raise ValueError('day is out of range for month')
            return SDate(ordinal(y, m, d), (y, m, d))

        @staticmethod
        def now():
            raise st.Unsupported('datetime.now under symbolic execution')

    @staticmethod
    def timedelta(days=0):
        return STimedelta(_t(days))


class _CalendarModule:
    @staticmethod
    def monthrange(y, m):
        y, m = _t(y), _t(m)
        # calendar.monthrange accepts any year (it folds years beyond 9999 modulo 400);
        # a month outside 1..12 raises calendar.IllegalMonthError, a ValueError
        if not st.decide(z3.And(m >= 1, m <= 12)):
            raise ValueError('bad month')
        return None, st.SInt(dim(y, m))


def install(date_module):
    saved = (date_module.datetime, date_module.calendar, date_module.DATE_ZERO)
    real_zero = date_module.DATE_ZERO
    date_module.datetime = _DatetimeModule
    date_module.calendar = _CalendarModule
    date_module.DATE_ZERO = SDate(z3.IntVal(real_zero.toordinal()))
    return saved


def uninstall(date_module, saved):
    date_module.datetime, date_module.calendar, date_module.DATE_ZERO = saved


def validate(n=10000, seed=0):
    """shim vs the real datetime/calendar on seeded dates; returns number of cases"""
    rnd = random.Random(seed)
    cases = 0
    for _ in range(n):
        y, m = rnd.randint(1, 9999), rnd.randint(1, 12)
        d = rnd.randint(1, _calendar.monthrange(y, m)[1])
        o = _datetime.date(y, m, d).toordinal()
        assert z3.simplify(ordinal(z3.IntVal(y), z3.IntVal(m), z3.IntVal(d))).as_long() == o, (y, m, d)
        assert z3.simplify(dim(z3.IntVal(y), z3.IntVal(m))).as_long() == _calendar.monthrange(y, m)[1]
        y2 = rnd.randint(10000, 12000)
        assert z3.simplify(dim(z3.IntVal(y2), z3.IntVal(m))).as_long() == _calendar.monthrange(y2, m)[1]
        assert z3.is_true(z3.simplify(valid(z3.IntVal(y), z3.IntVal(m), z3.IntVal(d))))
        assert z3.is_false(z3.simplify(valid(z3.IntVal(y), z3.IntVal(m), z3.IntVal(_calendar.monthrange(y, m)[1] + 1))))
        cases += 1
    return cases

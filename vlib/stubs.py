"""Stubs shared by every harness (each is part of every claim; see DESIGN §2).

* functools.lru_cache wrappers inside `formulas` are replaced by the wrapped
  function (memoisation off) - hashing a symbolic key makes CrossHair report
  non-determinism.  `_range2parts` keeps its cache (keys are concrete tuples
  of field names and it builds a dispatcher per call).
* numpy.isfinite on a plain Python scalar -> math.isfinite.
* schedula's workflow clock -> constant.
"""
import functools
import math
import sys
import types

KEEP_CACHED = {'_range2parts'}


def unwrap_lru(prefix='formulas'):
    import formulas  # noqa
    import formulas.excel  # noqa
    import formulas.parser  # noqa
    from formulas.functions import get_functions
    get_functions()          # imports every functions.* submodule (they are loaded lazily)
    done = []
    wrappers = {}
    for name, mod in list(sys.modules.items()):
        if mod is None or not (name == prefix or name.startswith(prefix + '.')):
            continue
        for attr, val in list(vars(mod).items()):
            if isinstance(val, functools._lru_cache_wrapper) and attr not in KEEP_CACHED:
                wrappers[id(val)] = val.__wrapped__
                setattr(mod, attr, val.__wrapped__)
                done.append('%s.%s' % (name, attr))
    return done


def stub_isfinite():
    import numpy as np
    if getattr(np.isfinite, '_verif_stub', False):
        return
    _isf = np.isfinite

    def isfinite(v, *a, **k):
        if not a and not k and isinstance(v, (int, float)) and not isinstance(v, (np.generic, np.ndarray)):
            return math.isfinite(v)
        return _isf(v, *a, **k)
    isfinite._verif_stub = True
    np.isfinite = isfinite


def stub_clock():
    import schedula.utils.sol as _S
    _S.time = types.SimpleNamespace(time=lambda: 0.0)


def apply_common():
    stub_clock()
    stub_isfinite()
    return unwrap_lru()

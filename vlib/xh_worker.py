"""Run CrossHair on ONE condition function of a harness module; print one JSON line.

usage: python -m vlib.xh_worker <harness.py> <function> <per_condition_timeout> [per_path_timeout]
"""
import collections
import importlib.util
import json
import os
import sys
import time


def main():
    path, fname, tmo = sys.argv[1], sys.argv[2], float(sys.argv[3])
    ppt = float(sys.argv[4]) if len(sys.argv) > 4 else None
    sys.setrecursionlimit(5000)
    t0 = time.time()
    out = {'function': fname, 'status': 'error', 'messages': [], 'paths': 0}
    try:
        d = os.path.dirname(os.path.abspath(path))
        if d not in sys.path:
            sys.path.insert(0, d)
        modname = os.path.splitext(os.path.basename(path))[0]
        spec = importlib.util.spec_from_file_location(modname, path)
        mod = importlib.util.module_from_spec(spec)
        sys.modules[modname] = mod
        spec.loader.exec_module(mod)
        fn = getattr(mod, fname)
        from crosshair.core_and_libs import analyze_function, run_checkables
        from crosshair.options import AnalysisOptionSet
        from crosshair.statespace import MessageType
        stats = collections.Counter()
        kw = dict(per_condition_timeout=tmo, report_all=True, stats=stats,
                  max_uninteresting_iterations=sys.maxsize)
        if ppt:
            kw['per_path_timeout'] = ppt
        opts = AnalysisOptionSet(**kw)
        msgs = run_checkables(analyze_function(fn, opts))
        out['paths'] = stats.get('num_paths', 0)
        out['messages'] = [{'state': m.state.name, 'message': m.message, 'line': m.line}
                           for m in msgs]
        states = {m.state for m in msgs}
        bad = {MessageType.POST_FAIL, MessageType.EXEC_ERR, MessageType.POST_ERR,
               MessageType.PRE_INVALID} if hasattr(MessageType, 'PRE_INVALID') else \
            {MessageType.POST_FAIL, MessageType.EXEC_ERR, MessageType.POST_ERR}
        if states & bad:
            out['status'] = 'counterexample'
        elif states and states <= {MessageType.CONFIRMED}:
            out['status'] = 'confirmed'
        elif MessageType.PRE_UNSAT in states:
            out['status'] = 'pre_unsat'
        elif not msgs:
            out['status'] = 'no_conditions'
        else:
            out['status'] = 'unknown'
    except BaseException as e:  # noqa
        import traceback
        out['status'] = 'error'
        out['messages'] = [{'state': 'WORKER_EXC', 'message': '%s: %s' % (type(e).__name__, e),
                            'tb': traceback.format_exc()[-1500:]}]
    out['seconds'] = round(time.time() - t0, 2)
    sys.stdout.write('\n@@XH@@' + json.dumps(out) + '\n')
    sys.stdout.flush()


if __name__ == '__main__':
    main()

"""Selector variables for CrossHair harnesses: a concrete integer chosen by
branching on boolean arguments (a clean binary decision tree that CrossHair
exhausts; symbolic ints used as indices are enumerated far less efficiently)."""


def sel(*bits):
    v = 0
    for k, b in enumerate(bits):
        if b:
            v += 1 << k
    return v


def concrete(fn, *args, **kwargs):
    """Run fn natively (CrossHair's interception suspended).  Only for calls whose
    arguments are already concrete on the current path (selectors after branching):
    nothing symbolic may cross this boundary.  Tier-S harnesses use it so that a whole
    ExcelModel is built and calculated at native speed on each explored path."""
    try:
        from crosshair.tracers import NoTracing, is_tracing
    except ImportError:        # plain interpreter (replay)
        return fn(*args, **kwargs)
    if not is_tracing():
        return fn(*args, **kwargs)
    with NoTracing():
        return fn(*args, **kwargs)

"""Selector variables for CrossHair harnesses: a concrete integer chosen by
branching on boolean arguments (a clean binary decision tree that CrossHair
exhausts; symbolic ints used as indices are enumerated far less efficiently)."""


def sel(*bits):
    v = 0
    for k, b in enumerate(bits):
        if b:
            v += 1 << k
    return v

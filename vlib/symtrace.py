"""Engine B - `symtrace`: the real Python bytecode run on proxy objects that
build z3 terms; concolic DFS over branch decisions; one SMT query per path.

Proxies:  SBool (fork point), SInt (64-bit bit-vector in 'bv' mode, mathematical
Int in 'lia' mode), SFloat (IEEE double, RNE), SStr (z3 String; only what the
harnesses need).  They are deliberately NOT subclasses of int/float/str: C code
cannot read a dummy value from them, it raises TypeError naming the class, and
`leaked()` reports it (a path on which that happened is inconclusive).
"""
import math
import subprocess
import tempfile
import os
import time
import z3

F64 = z3.Float64()
RNE = z3.RNE()
W = 64
MODE = 'bv'          # 'bv' | 'lia' for SInt


class Ctx:
    cur = None

    def __init__(self, prefix, assumptions, model=None):
        self.model = model
        self.prefix = prefix
        self.trace = []
        self.pc = list(assumptions)
        self.nass = len(assumptions)
        self.solver = z3.Solver()
        self.solver.set('timeout', 60000)
        self.leaks = []
        self.extra = []     # side constraints introduced by stubs (fresh variables)
        self.guards = []    # definedness conditions of partial operations (float->int in range):
        #                     proved together with the post-condition instead of forking
        self.decided = {}


class Abort(BaseException):
    """path abandoned (infeasible / unsupported); BaseException so that the code
    under test cannot swallow it"""


class Unsupported(Abort):
    pass


_fresh = [0]


def fresh(prefix, sort):
    _fresh[0] += 1
    return z3.Const('%s!%d' % (prefix, _fresh[0]), sort)


def decide(term):
    """fork on a z3 Bool term.  Concolic: the branch is the one the current
    model takes; the other one is scheduled later if the solver finds it feasible."""
    term = z3.simplify(term)
    if z3.is_true(term):
        return True
    if z3.is_false(term):
        return False
    c = Ctx.cur
    key = term.get_id()
    if key in c.decided:
        return c.decided[key]
    neg = z3.simplify(z3.Not(term)).get_id()
    if neg in c.decided:
        return not c.decided[neg]
    i = len(c.trace)
    d = None
    if i < len(c.prefix):
        d = c.prefix[i]
    elif c.model is not None:
        v = c.model.eval(term, model_completion=True)
        if z3.is_true(v):
            d = True
        elif z3.is_false(v):
            d = False
    if d is None:
        c.solver.push()
        c.solver.add(*c.pc, *c.extra, term)
        r = str(c.solver.check())
        if r == 'sat':
            d = True
            c.model = c.solver.model()
        c.solver.pop()
        if d is None:
            c.solver.push()
            c.solver.add(*c.pc, *c.extra, z3.Not(term))
            r2 = str(c.solver.check())
            if r2 == 'sat':
                d = False
                c.model = c.solver.model()
            c.solver.pop()
            if d is None:
                if r == 'unsat' and r2 == 'unsat':
                    raise Abort('infeasible')
                raise Unsupported('solver unknown while choosing a branch')
    c.trace.append(d)
    c.pc.append(term if d else z3.Not(term))
    c.decided[key] = d
    return d


class SBool:
    def __init__(self, t):
        self.t = t

    def __bool__(self):
        return decide(self.t)

    def __and__(self, o):
        return SBool(z3.And(self.t, tobool(o)))
    __rand__ = __and__

    def __or__(self, o):
        return SBool(z3.Or(self.t, tobool(o)))
    __ror__ = __or__

    def __invert__(self):
        return SBool(z3.Not(self.t))

    def __eq__(self, o):
        return SBool(self.t == tobool(o))

    def __ne__(self, o):
        return SBool(self.t != tobool(o))
    __hash__ = None


def tobool(o):
    if isinstance(o, SBool):
        return o.t
    if isinstance(o, bool):
        return z3.BoolVal(o)
    raise TypeError('SBool combined with %r' % (o,))


def _isnum(o):
    return isinstance(o, (int, float, SInt, SFloat, SRatio))


def fp(v):
    if isinstance(v, SFloat):
        return v.t
    if isinstance(v, SRatio):
        return v._f().t
    if isinstance(v, SInt):
        if MODE == 'bv':
            return z3.fpSignedToFP(RNE, v.t, F64)
        return z3.fpRealToFP(RNE, z3.ToReal(v.t), F64)
    if isinstance(v, bool):
        v = int(v)
    if isinstance(v, (int, float)):
        return z3.FPVal(float(v), F64)
    raise TypeError('cannot make a double of %r' % (v,))


def iv(v):
    if isinstance(v, SInt):
        return v.t
    if isinstance(v, bool):
        v = int(v)
    if isinstance(v, int):
        return z3.BitVecVal(v, W) if MODE == 'bv' else z3.IntVal(v)
    raise TypeError('cannot make an integer of %r' % (v,))


def fin(t):
    return z3.Not(z3.Or(z3.fpIsInf(t), z3.fpIsNaN(t)))


class SFloat:
    def __init__(self, t):
        self.t = t

    def _b(self, o, f, r=False):
        if not _isnum(o):
            return NotImplemented
        a, b = fp(self), fp(o)
        if r:
            a, b = b, a
        return SFloat(f(RNE, a, b))

    def __add__(self, o): return self._b(o, z3.fpAdd)
    def __radd__(self, o): return self._b(o, z3.fpAdd, True)
    def __sub__(self, o): return self._b(o, z3.fpSub)
    def __rsub__(self, o): return self._b(o, z3.fpSub, True)
    def __mul__(self, o): return self._b(o, z3.fpMul)
    def __rmul__(self, o): return self._b(o, z3.fpMul, True)

    def __truediv__(self, o):
        if not _isnum(o):
            return NotImplemented
        if decide(z3.fpIsZero(fp(o))):
            raise ZeroDivisionError('float division by zero')
        return self._b(o, z3.fpDiv)

    def __rtruediv__(self, o):
        if not _isnum(o):
            return NotImplemented
        if decide(z3.fpIsZero(self.t)):
            raise ZeroDivisionError('float division by zero')
        return self._b(o, z3.fpDiv, True)

    def __neg__(self): return SFloat(z3.fpNeg(self.t))
    def __pos__(self): return self
    def __abs__(self): return SFloat(z3.fpAbs(self.t))

    def _c(self, o, f):
        if not _isnum(o):
            return NotImplemented
        return SBool(f(fp(self), fp(o)))

    def __lt__(self, o): return self._c(o, z3.fpLT)
    def __le__(self, o): return self._c(o, z3.fpLEQ)
    def __gt__(self, o): return self._c(o, z3.fpGT)
    def __ge__(self, o): return self._c(o, z3.fpGEQ)

    def __eq__(self, o):
        if not _isnum(o):
            return False
        return SBool(z3.fpEQ(fp(self), fp(o)))

    def __ne__(self, o):
        if not _isnum(o):
            return True
        return SBool(z3.Not(z3.fpEQ(fp(self), fp(o))))
    __hash__ = None

    def __bool__(self):
        return not decide(z3.fpIsZero(self.t))

    def _ri(self, rm):
        if MODE == 'bv':
            # defined (and exact) when x is finite and |x| < 2^62: recorded as a guard that
            # is proved with the post-condition (NaN / infinity / huge values would raise
            # ValueError / OverflowError in CPython - outside every harness bound)
            Ctx.cur.guards.append(z3.And(fin(self.t), z3.fpLT(self.t, z3.FPVal(2.0 ** 62, F64)),
                                         z3.fpGT(self.t, z3.FPVal(-2.0 ** 62, F64))))
            return SInt(z3.fpToSBV(rm, self.t, z3.BitVecSort(W)))
        if decide(z3.fpIsNaN(self.t)):
            raise ValueError('cannot convert float NaN to integer')
        if decide(z3.fpIsInf(self.t)):
            raise OverflowError('cannot convert float infinity to integer')
        return SInt(z3.ToInt(z3.fpToReal(z3.fpRoundToIntegral(rm, self.t))))

    def __floor__(self): return self._ri(z3.RTN())
    def __ceil__(self): return self._ri(z3.RTP())
    def __trunc__(self): return self._ri(z3.RTZ())
    def __int__(self): return self._ri(z3.RTZ())

    def __round__(self, nd=None):
        if nd is None:
            return self._ri(RNE)
        if nd == 0:
            return SRounded(z3.fpRoundToIntegral(RNE, self.t), self)
        raise Unsupported('round(x, %r)' % (nd,))

    def __float__(self):
        raise TypeError('SFloat leaked into C code (float())')

    def __index__(self):
        raise TypeError('SFloat leaked into C code (index)')

    def __mod__(self, o):
        if isinstance(o, (int, float)) and o == 1:
            # CPython float_rem with w = 1: fmod is exact (x - trunc(x)); a negative
            # remainder is shifted by +1.0 (rounded); a zero remainder is +0.0
            if decide(z3.Not(fin(self.t))):
                raise Unsupported('nan/inf % 1')
            if decide(z3.fpGEQ(self.t, z3.FPVal(0.0, F64))):
                return SFloat(z3.fpSub(RNE, self.t, z3.fpRoundToIntegral(z3.RTN(), self.t)))
            tr = z3.fpRoundToIntegral(z3.RTZ(), self.t)
            m = z3.fpSub(RNE, self.t, tr)
            one = z3.FPVal(1.0, F64)
            res = z3.If(z3.fpIsZero(m), z3.FPVal(0.0, F64), z3.fpAdd(RNE, m, one))
            return SFloat(res)
        raise Unsupported('float %')

    def __pow__(self, o):
        raise Unsupported('float **')
    __rpow__ = __pow__

    def is_integer(self):
        return SBool(z3.And(fin(self.t), z3.fpEQ(z3.fpRoundToIntegral(z3.RTZ(), self.t), self.t)))

    def __repr__(self):
        return 'SFloat(%s)' % self.t


class SRounded(SFloat):
    """round(x, 0): a double that is known to be integral; int() of it converts the
    original with RNE directly (same value, simpler term)"""

    def __init__(self, t, orig):
        self.t, self.orig = t, orig

    def __int__(self):
        return self.orig._ri(RNE)
    __trunc__ = __floor__ = __ceil__ = __int__


class SInt:
    def __init__(self, t):
        self.t = t

    def _b(self, o, f, r=False):
        if isinstance(o, (float, SFloat)):
            return NotImplemented
        if not _isnum(o):
            return NotImplemented
        a, b = iv(self), iv(o)
        if r:
            a, b = b, a
        return SInt(f(a, b))

    def __add__(self, o):
        if isinstance(o, (float, SFloat)): return SFloat(fp(self)) + o
        return self._b(o, lambda a, b: a + b)

    def __radd__(self, o):
        if isinstance(o, (float, SFloat)): return o + SFloat(fp(self))
        return self._b(o, lambda a, b: a + b, True)

    def __sub__(self, o):
        if isinstance(o, (float, SFloat)): return SFloat(fp(self)) - o
        return self._b(o, lambda a, b: a - b)

    def __rsub__(self, o):
        if isinstance(o, (float, SFloat)): return o - SFloat(fp(self))
        return self._b(o, lambda a, b: a - b, True)

    def __mul__(self, o):
        if isinstance(o, (float, SFloat)): return SFloat(fp(self)) * o
        return self._b(o, lambda a, b: a * b)

    def __rmul__(self, o):
        if isinstance(o, (float, SFloat)): return o * SFloat(fp(self))
        return self._b(o, lambda a, b: a * b, True)

    def __truediv__(self, o):
        if not _isnum(o):
            return NotImplemented
        if MODE == 'lia' and isinstance(o, int) and not isinstance(o, bool) and 0 < o < 2 ** 20:
            return SRatio(self, o)
        return SFloat(fp(self)) / (o if isinstance(o, (SFloat, float)) else SFloat(fp(o)))

    def __rtruediv__(self, o):
        if not _isnum(o):
            return NotImplemented
        return (o if isinstance(o, SFloat) else SFloat(fp(o))) / SFloat(fp(self))

    def _divmod(self, o, r=False):
        a, b = iv(self), iv(o)
        if r:
            a, b = b, a
        if MODE == 'bv' and not r and isinstance(o, int) and not isinstance(o, bool) and o > 0:
            m = z3.SRem(a, b)
            m2 = z3.If(m < 0, m + b, m)
            return SInt((a - m2) / b), SInt(m2)
        if decide(b == 0):
            raise ZeroDivisionError('integer division or modulo by zero')
        if MODE == 'lia':
            # z3 Int div/mod are Euclidean (0 <= mod < |b|); Python floors
            q, m = a / b, a % b
            neg = b < 0
            fq = z3.If(z3.And(neg, m != 0), q - 1, q)
            fm = z3.If(z3.And(neg, m != 0), m + b, m)
            return SInt(fq), SInt(fm)
        q = z3.SDiv(a, b) if hasattr(z3, 'SDiv') else a / b
        m = z3.SRem(a, b)
        adj = z3.And(m != 0, (m < 0) != (b < 0))
        return SInt(z3.If(adj, q - 1, q)), SInt(z3.If(adj, m + b, m))

    def __floordiv__(self, o):
        if isinstance(o, (float, SFloat)): raise Unsupported('float //')
        return self._divmod(o)[0]

    def __rfloordiv__(self, o): return self._divmod(o, True)[0]

    def __mod__(self, o):
        if isinstance(o, (float, SFloat)): raise Unsupported('float %')
        return self._divmod(o)[1]

    def __rmod__(self, o): return self._divmod(o, True)[1]
    def __divmod__(self, o): return self._divmod(o)
    def __neg__(self): return SInt(-self.t)
    def __pos__(self): return self
    def __abs__(self): return SInt(z3.If(self.t < 0, -self.t, self.t))

    def _bits(self, o, f, r=False):
        if MODE != 'bv':
            raise Unsupported('bit operation in lia mode')
        return self._b(o, f, r)

    def __and__(self, o): return self._bits(o, lambda a, b: a & b)
    __rand__ = __and__
    def __or__(self, o): return self._bits(o, lambda a, b: a | b)
    __ror__ = __or__
    def __xor__(self, o): return self._bits(o, lambda a, b: a ^ b)
    __rxor__ = __xor__
    def __invert__(self):
        if MODE != 'bv':
            return SInt(-self.t - 1)
        return SInt(~self.t)
    def __lshift__(self, o): return self._bits(o, lambda a, b: a << b)
    def __rlshift__(self, o): return self._bits(o, lambda a, b: a << b, True)
    def __rshift__(self, o): return self._bits(o, lambda a, b: a >> b)

    def _c(self, o, op):
        if isinstance(o, (float, SFloat)):
            f = {'lt': z3.fpLT, 'le': z3.fpLEQ, 'gt': z3.fpGT, 'ge': z3.fpGEQ, 'eq': z3.fpEQ}[op]
            return SBool(f(fp(self), fp(o)))
        if not _isnum(o):
            return NotImplemented
        a, b = iv(self), iv(o)
        return SBool({'lt': a < b, 'le': a <= b, 'gt': a > b, 'ge': a >= b, 'eq': a == b}[op])

    def __lt__(self, o): return self._c(o, 'lt')
    def __le__(self, o): return self._c(o, 'le')
    def __gt__(self, o): return self._c(o, 'gt')
    def __ge__(self, o): return self._c(o, 'ge')

    def __eq__(self, o):
        if not _isnum(o):
            return False
        return self._c(o, 'eq')

    def __ne__(self, o):
        if not _isnum(o):
            return True
        return SBool(z3.Not(self._c(o, 'eq').t))
    __hash__ = None

    def __bool__(self):
        return decide(self.t != 0)

    def __int__(self): return self
    def __floor__(self): return self
    def __ceil__(self): return self
    def __trunc__(self): return self
    def __round__(self, nd=None): return self

    def __index__(self):
        raise TypeError('SInt leaked into C code (index)')

    def __float__(self):
        raise TypeError('SInt leaked into C code (float())')

    def is_integer(self):
        return True

    def __repr__(self):
        return 'SInt(%s)' % self.t


class SRatio:
    """fl(a / k) for a symbolic integer a and a small positive constant k (LIA mode).
    floor() of it is a div k - the cut  floor(fl(a/k)) == a // k  for |a| < 2^31 is
    discharged separately as a QF_BVFP lemma (C20 obligation lemma_floor_div)."""

    def __init__(self, num, den):
        self.num, self.den = num, den

    def __floor__(self):
        Ctx.cur.extra.append(z3.And(self.num.t > -2 ** 31, self.num.t < 2 ** 31))
        return SInt(self.num.t / self.den)      # z3 Int division by a positive constant floors

    def _f(self):
        return SFloat(z3.fpRealToFP(RNE, z3.ToReal(self.num.t) / self.den, F64))

    def __getattr__(self, name):
        if name.startswith('__') and name.endswith('__') and hasattr(SFloat, name):
            f = self._f()
            return getattr(f, name)
        raise AttributeError(name)

    def __add__(self, o): return self._f() + o
    def __radd__(self, o): return o + self._f()
    def __sub__(self, o): return self._f() - o
    def __rsub__(self, o): return o - self._f()
    def __mul__(self, o): return self._f() * o
    def __rmul__(self, o): return o * self._f()
    def __lt__(self, o): return self._f() < o
    def __le__(self, o): return self._f() <= o
    def __gt__(self, o): return self._f() > o
    def __ge__(self, o): return self._f() >= o


# ---- proxy-aware builtins to shadow in the module under test ----------------

def sym_float(v=0.0):
    if isinstance(v, SFloat):
        return v
    if isinstance(v, SInt):
        return SFloat(fp(v))
    return float(v)


def sym_int(v=0, *a):
    if isinstance(v, (SInt, SFloat)) and not a:
        return v.__int__()
    if isinstance(v, SBool) and not a:
        one, zero = (z3.BitVecVal(1, W), z3.BitVecVal(0, W)) if MODE == 'bv' else (z3.IntVal(1), z3.IntVal(0))
        return SInt(z3.If(v.t, one, zero))
    return int(v, *a)


def sym_abs(v):
    return abs(v)


def sym_isfinite(v, *a, **k):
    if isinstance(v, SFloat):
        return SBool(fin(v.t))
    if isinstance(v, SInt):
        return True
    import numpy as np
    return np._verif_isfinite(v, *a, **k) if hasattr(np, '_verif_isfinite') else math.isfinite(v)


class SMath:
    """stand-in for the `math` module inside a module under test: proxy-aware versions of
    the functions whose IEEE semantics are expressible, everything else falls through to
    the real module (and leaks -> inconclusive if handed a proxy)"""

    def __getattr__(self, name):
        return getattr(math, name)

    @staticmethod
    def floor(x): return x.__floor__() if isinstance(x, (SFloat, SInt, SRatio)) else math.floor(x)

    @staticmethod
    def ceil(x): return x.__ceil__() if isinstance(x, (SFloat, SInt)) else math.ceil(x)

    @staticmethod
    def trunc(x): return x.__trunc__() if isinstance(x, (SFloat, SInt)) else math.trunc(x)

    @staticmethod
    def fabs(x): return SFloat(z3.fpAbs(fp(x))) if isinstance(x, (SFloat, SInt)) else math.fabs(x)

    @staticmethod
    def sqrt(x):
        if isinstance(x, (SFloat, SInt)):
            if decide(z3.fpLT(fp(x), z3.FPVal(0.0, F64))):
                raise ValueError('math domain error')
            return SFloat(z3.fpSqrt(RNE, fp(x)))
        return math.sqrt(x)

    @staticmethod
    def isfinite(x): return SBool(fin(x.t)) if isinstance(x, SFloat) else math.isfinite(x)

    @staticmethod
    def isnan(x): return SBool(z3.fpIsNaN(x.t)) if isinstance(x, SFloat) else math.isnan(x)

    @staticmethod
    def isinf(x): return SBool(z3.fpIsInf(x.t)) if isinstance(x, SFloat) else math.isinf(x)

    @staticmethod
    def copysign(x, y):
        if isinstance(x, (SFloat, SInt)) or isinstance(y, (SFloat, SInt)):
            a, b = fp(x), fp(y)
            return SFloat(z3.If(z3.fpIsNegative(b), z3.fpNeg(z3.fpAbs(a)), z3.fpAbs(a)))
        return math.copysign(x, y)

    @staticmethod
    def nextafter(x, y):
        if isinstance(x, SFloat) and isinstance(y, float) and math.isinf(y):
            # next representable double towards +inf / -inf (finite x): step the IEEE bit pattern
            up = y > 0
            bits = z3.fpToIEEEBV(x.t)
            one = z3.BitVecVal(1, 64)
            pos = z3.Not(z3.fpIsNegative(x.t))
            away = z3.fpBVToFP(bits + one, F64)
            toward = z3.fpBVToFP(bits - one, F64)
            tiny = z3.fpBVToFP(z3.BitVecVal(1, 64), F64)
            if up:
                r = z3.If(z3.fpIsZero(x.t), tiny, z3.If(pos, away, toward))
            else:
                r = z3.If(z3.fpIsZero(x.t), z3.fpNeg(tiny), z3.If(pos, toward, away))
            Ctx.cur.guards.append(fin(x.t))
            return SFloat(r)
        return math.nextafter(x, y)


def install_numpy_stubs():
    """np.isfinite / np.sign / np.floor / np.ceil / np.trunc accept proxies (scalar contracts)."""
    import numpy as np
    if getattr(np, '_verif_symtrace', False):
        return
    orig = {n: getattr(np, n) for n in ('isfinite', 'sign', 'floor', 'ceil', 'trunc', 'isnan')}

    def isfinite(v, *a, **k):
        if isinstance(v, SFloat):
            return SBool(fin(v.t))
        if isinstance(v, SInt):
            return True
        if not a and not k and isinstance(v, (int, float)) and not isinstance(v, (np.generic, np.ndarray)):
            return math.isfinite(v)
        return orig['isfinite'](v, *a, **k)

    def isnan(v, *a, **k):
        if isinstance(v, SFloat):
            return SBool(z3.fpIsNaN(v.t))
        if isinstance(v, SInt):
            return False
        return orig['isnan'](v, *a, **k)

    def sign(v, *a, **k):
        if isinstance(v, (SFloat, SInt)):
            if v > 0:
                return 1
            if v < 0:
                return -1
            return 0
        return orig['sign'](v, *a, **k)

    def mk(name, meth):
        def f(v, *a, **k):
            if isinstance(v, SFloat):
                rm = {'floor': z3.RTN(), 'ceil': z3.RTP(), 'trunc': z3.RTZ()}[name]
                return SFloat(z3.fpRoundToIntegral(rm, v.t))
            if isinstance(v, SInt):
                return v
            return orig[name](v, *a, **k)
        return f
    np.isfinite, np.isnan, np.sign = isfinite, isnan, sign
    np.floor, np.ceil, np.trunc = mk('floor', 0), mk('ceil', 0), mk('trunc', 0)
    np._verif_symtrace = True


# ---- exploration ------------------------------------------------------------

PROXY_NAMES = ['SInt', 'SFloat', 'SStr', 'SBool', 'SRatio', 'SRounded', 'SDate', 'STimedelta', "'Num'", 'Opaque']


class PathResult:
    def __init__(self, trace, outcome, verdict, seconds, model=None, pc=None, note=''):
        self.trace, self.outcome, self.verdict = trace, outcome, verdict
        self.seconds, self.model, self.pc, self.note = seconds, model, pc, note


def solve(constraints, timeout_s=120, use_cvc5=False, logic=None):
    """-> ('sat'|'unsat'|'unknown', model or None, seconds, backend).  With use_cvc5
    the cvc5 binary works on the SMT-LIB dump in parallel; first definitive answer wins
    (a sat answer from cvc5 is re-derived with z3 to obtain the model)."""
    import threading
    t0 = time.time()
    s = z3.Solver()
    s.set('timeout', int(timeout_s * 1000))
    s.add(*constraints)
    if not use_cvc5:
        r = str(s.check())
        return r, (s.model() if r == 'sat' else None), time.time() - t0, 'z3'
    box = {}
    ctx2 = z3.Context()
    s2 = z3.Solver(ctx=ctx2)
    s2.set('timeout', int(timeout_s * 1000))
    s2.from_string(s.to_smt2())

    def run_z3():
        box['z3'] = str(s2.check())

    def run_cvc5():
        box['cvc5'] = cvc5_check(s, timeout_s)
    th = [threading.Thread(target=run_z3, daemon=True), threading.Thread(target=run_cvc5, daemon=True)]
    for t in th:
        t.start()
    while time.time() - t0 < timeout_s + 15:
        for be in ('z3', 'cvc5'):
            if box.get(be) in ('sat', 'unsat'):
                r = box[be]
                if r == 'unsat':
                    try:
                        ctx2.interrupt()
                    except Exception:
                        pass
                    return 'unsat', None, time.time() - t0, be
                # sat: need a model in the main context
                try:
                    ctx2.interrupt()
                except Exception:
                    pass
                r2 = str(s.check())
                return (r2 if r2 == 'sat' else 'unknown'), (s.model() if r2 == 'sat' else None), time.time() - t0, be
        if len(box) == 2:
            break
        time.sleep(0.2)
    return 'unknown', None, time.time() - t0, 'z3+cvc5'


def cvc5_check(solver, timeout_s=120):
    """cross-check / fallback with the cvc5 binary on the SMT-LIB dump"""
    text = solver.to_smt2()
    fd, path = tempfile.mkstemp(suffix='.smt2', dir='/verif/.work' if os.path.isdir('/verif/.work') else None)
    os.close(fd)
    try:
        with open(path, 'w') as f:
            f.write('(set-logic ALL)\n' + text)
        try:
            p = subprocess.run(['cvc5', '--fp-exp', '--tlimit=%d' % int(timeout_s * 1000), path],
                               capture_output=True, text=True, timeout=timeout_s + 10)
        except subprocess.TimeoutExpired:
            return 'unknown'
        out = p.stdout.strip().splitlines()
        if '(error' in p.stdout or '(error' in p.stderr:
            return 'unknown'
        return out[0] if out and out[0] in ('sat', 'unsat') else 'unknown'
    finally:
        os.remove(path)


def explore(fn, post, assumptions, timeout_s=120, max_paths=400, use_cvc5=False, vacuity=True):
    """DFS over decision prefixes.  fn() runs the real code on proxies and returns
    its result; post(outcome) -> z3 Bool (outcome = ('ret', value) | ('exc', e)).
    For each completed path the query  assumptions & pc & not post  is decided.
    Returns list of PathResult; verdict in {'unsat' (holds), 'sat' (counterexample),
    'unknown', 'leak', 'abort'}."""
    s0 = z3.Solver()
    s0.set('timeout', int(timeout_s * 1000))
    s0.add(*assumptions)
    r0 = str(s0.check())
    if r0 == 'unsat':
        return [PathResult([], None, 'vacuous', 0.0, note='assumptions unsatisfiable')]
    stack, results = [([], s0.model() if r0 == 'sat' else None)], []
    while stack and len(results) < max_paths:
        prefix, model = stack.pop()
        _fresh[0] = 0
        c = Ctx.cur = Ctx(prefix, assumptions, model)
        c.solver.set('timeout', int(timeout_s * 1000))
        c.sched_timeout, c.use_cvc5 = timeout_s, use_cvc5
        t0 = time.time()
        _leak_watch(c, True)
        try:
            out = ('ret', fn())
        except Unsupported as e:
            results.append(PathResult(list(c.trace), ('abort', e), 'abort', time.time() - t0, note=str(e)))
            _schedule(stack, c, prefix)
            continue
        except Abort:
            _schedule(stack, c, prefix)
            continue
        except Exception as e:          # the code under test raised: an outcome like any other
            out = ('exc', e)
        finally:
            _leak_watch(c, False)
        leak = None
        if out[0] == 'exc' and isinstance(out[1], (TypeError, AttributeError)) and any(
                n in str(out[1]) for n in PROXY_NAMES):
            # an operation the proxies do not model: the path cannot be encoded (inconclusive)
            leak = str(out[1])
        if c.leaks:
            leak = c.leaks[0]
        try:
            goal = post(out)
        except Abort as e:
            results.append(PathResult(list(c.trace), out, 'abort', time.time() - t0, note='post: %s' % e))
            _schedule(stack, c, prefix)
            continue
        if isinstance(goal, bool):
            goal = z3.BoolVal(goal)
        if isinstance(goal, SBool):
            goal = goal.t
        if leak:
            results.append(PathResult(list(c.trace), out, 'leak', time.time() - t0, note=leak))
        else:
            cons = list(c.pc) + list(c.extra)
            r, model, dt, be = solve(cons + [z3.Not(z3.And(goal, *c.guards))], timeout_s, use_cvc5)
            note = be
            if r == 'sat' and c.guards and not z3.is_true(model.eval(z3.And(*c.guards), model_completion=True)):
                r, note = 'unknown', 'a float->int conversion may leave its modelled range (guard)'
            if r == 'unsat' and vacuity:
                rv, _, _, _ = solve(cons, timeout_s, use_cvc5)
                if rv == 'unsat':
                    r, note = 'vacuous', 'path condition unsatisfiable'
                elif rv != 'sat':
                    note += ' (path feasibility unknown)'
            results.append(PathResult(list(c.trace), out, r, time.time() - t0, model, cons, note))
        _schedule(stack, c, prefix)
    if stack:
        results.append(PathResult([], None, 'unknown', 0.0, note='path budget exhausted (%d)' % max_paths))
    Ctx.cur = None
    return results


_TOOL = 4      # sys.monitoring tool id used for the leak guard


def _leak_watch(c, on):
    """Leak guard: record every TypeError / AttributeError raised while the code under
    test runs whose text names a proxy class - even if the code swallows it (safe_eval
    catches TypeError).  Such a path cannot be trusted: verdict 'leak' (inconclusive)."""
    import sys
    mon = getattr(sys, 'monitoring', None)
    if mon is None:
        return
    try:
        if on:
            def on_raise(code, offset, exc):
                if isinstance(exc, (TypeError, AttributeError)) and any(n in str(exc) for n in PROXY_NAMES):
                    if len(c.leaks) < 5:
                        c.leaks.append('%s: %s' % (type(exc).__name__, exc))
            try:
                mon.use_tool_id(_TOOL, 'verif-leak-guard')
            except ValueError:
                pass
            mon.register_callback(_TOOL, mon.events.RAISE, on_raise)
            mon.set_events(_TOOL, mon.events.RAISE)
        else:
            mon.set_events(_TOOL, 0)
            mon.register_callback(_TOOL, mon.events.RAISE, None)
    except Exception:
        pass


def _schedule(stack, c, prefix):
    body = c.pc[c.nass:]
    for i in range(len(prefix), len(c.trace)):
        cons = [*c.pc[:c.nass], *c.extra, *body[:i], z3.Not(body[i])]
        r, model, _, _ = solve(cons, getattr(c, 'sched_timeout', 60), getattr(c, 'use_cvc5', False))
        if r == 'sat':
            stack.append((c.trace[:i] + [not c.trace[i]], model))
        elif r != 'unsat':
            # feasibility unknown: explore it anyway (decisions fall back to the solver)
            stack.append((c.trace[:i] + [not c.trace[i]], None))

"""Common machinery: obligations, verdicts, replay, known findings, evidence.

Every check module builds a `Check`, adds *obligations* (one solver-decided
statement each) and calls `finish()`.  Verdicts:

  discharged    the solver showed the statement for every value in its bounds
  violated      a counterexample was found AND replayed concretely
  known         violated, and the counterexample falls in a class listed in
                known_findings.json (printed as KNOWN-FINDING, exit stays 0)
  inconclusive  time-out / unknown / engine error: reported, never a pass claim
  harness_error counterexample that does not replay, or a vacuous obligation

Exit codes: 0 nothing unlisted violated; 1 VIOLATION printed; 2 harness error.
"""
import hashlib
import inspect
import json
import os
import subprocess
import sys
import time

ROOT = '/verif'
OUT = os.environ.get('VERIF_OUT') or ROOT      # development only: where evidence / replays go
PY = '/verif/.venv/bin/python'
PLAIN_PY = '/venv/bin/python'


def pythonpath(*extra):
    """PYTHONPATH for child processes.  VERIF_REPO (development only: seeded-change
    runs against a scratch worktree) is put first so that `formulas` is imported
    from there; registered checks never set it and import /repo's working tree."""
    parts = [os.environ['VERIF_REPO']] if os.environ.get('VERIF_REPO') else []
    return os.pathsep.join(parts + [ROOT] + [e for e in extra if e])


def src_hash(obj):
    try:
        s = inspect.getsource(obj)
    except Exception:
        s = repr(obj)
    return hashlib.sha1(s.encode()).hexdigest()[:12]


def qualname(obj):
    return '%s.%s' % (getattr(obj, '__module__', '?'),
                      getattr(obj, '__qualname__', getattr(obj, '__name__', repr(obj))))


class Obligation:
    def __init__(self, name, engine, bounds, status, detail='', seconds=0.0,
                 paths=0, queries=0, sample=None, nontrivial=True):
        self.name, self.engine, self.bounds = name, engine, bounds
        self.status, self.detail, self.seconds = status, detail, seconds
        self.paths, self.queries, self.sample = paths, queries, sample
        self.nontrivial = nontrivial

    def as_dict(self):
        return {k: v for k, v in self.__dict__.items() if v not in (None, '')}


class Check:
    def __init__(self, pid, tier, seed, level='model_checking'):
        self.pid, self.tier, self.seed, self.level = pid, tier, seed, level
        self.t0 = time.time()
        self.obligations = []
        self.functions = {}
        self.assumptions = []
        self.outside = []
        self.notes = []
        self.violations = 0
        self.harness_errors = 0
        self.known_printed = []
        self.validation = []
        self.extra = {}
        with open(os.path.join(ROOT, 'known_findings.json')) as f:
            self.known_db = [k for k in json.load(f)['findings'] if k['property'] == pid]
        self._replay_n = 0

    # ---- bookkeeping -----------------------------------------------------
    def encode(self, *objs):
        for o in objs:
            self.functions[qualname(o)] = src_hash(o)

    def assume(self, *texts):
        self.assumptions.extend(texts)

    def out_of_scope(self, *texts):
        self.outside.extend(texts)

    def note(self, text):
        self.notes.append(text)
        print('note:', text, flush=True)

    def add(self, ob):
        self.obligations.append(ob)
        tag = {'discharged': 'ok  ', 'inconclusive': '??  ', 'violated': 'FAIL',
               'known': 'known', 'harness_error': 'HERR'}[ob.status]
        print('[%s] %-5s %-44s %6.1fs paths=%-5d %s' % (
            self.pid, tag, ob.name, ob.seconds, ob.paths, (ob.detail or '')[:150]), flush=True)
        if ob.status == 'harness_error':
            self.harness_errors += 1
        return ob

    # ---- violations ------------------------------------------------------
    def known_match(self, finding_id):
        for k in self.known_db:
            if k['id'] == finding_id and k.get('status', 'open') == 'open':
                return k
        return None

    def write_replay(self, source):
        """source: text of a standalone python script that exits 1 iff the
        violation reproduces on /repo (run with /venv/bin/python)."""
        self._replay_n += 1
        os.makedirs(os.path.join(OUT, 'replays'), exist_ok=True)
        path = os.path.join(OUT, 'replays', '%s-%d.py' % (self.pid, self._replay_n))
        with open(path, 'w') as f:
            f.write(source)
        return path

    def run_replay(self, path, timeout=300):
        env = dict(os.environ, PYTHONPATH=pythonpath(), PYTHONWARNINGS='ignore')
        try:
            p = subprocess.run([PLAIN_PY, path], capture_output=True, text=True,
                               timeout=timeout, env=env, cwd=ROOT)
        except subprocess.TimeoutExpired:
            return None, 'replay timed out'
        out = (p.stdout + p.stderr).strip()
        rc = p.returncode
        if rc == 1 and 'REPRODUCED' not in out:
            rc = 5      # crashed replay script, not a reproduction
        return rc, out[-600:]

    def report_counterexample(self, name, engine, bounds, replay_source, desc,
                              seconds=0.0, paths=0, queries=0, finding_id=None):
        """Replay; classify as violated / known / harness_error."""
        path = self.write_replay(replay_source)
        rc, out = self.run_replay(path)
        if rc != 1:
            os.replace(path, path + '.noreplay')
            return self.add(Obligation(
                name, engine, bounds, 'harness_error',
                'counterexample did not replay (rc=%s): %s | %s' % (rc, desc, out),
                seconds, paths, queries, sample=desc))
        k = self.known_match(finding_id) if finding_id else None
        if k:
            os.remove(path)
            line = 'KNOWN-FINDING: property=%s %s [%s]' % (self.pid, k['what'], desc)
            print(line, flush=True)
            self.known_printed.append(line)
            return self.add(Obligation(name, engine, bounds, 'known', desc, seconds,
                                       paths, queries, sample=desc))
        self.violations += 1
        print('VIOLATION property=%s replay=%s' % (self.pid, path), flush=True)
        print('  ' + desc, flush=True)
        return self.add(Obligation(name, engine, bounds, 'violated',
                                   desc + ' | ' + (out or '')[-200:], seconds, paths,
                                   queries, sample=desc))

    def check_known_witness(self, finding_id, replay_source):
        """A listed finding: re-check concretely that its witness still fails;
        print KNOWN-FINDING if so, nothing otherwise."""
        k = self.known_match(finding_id)
        if not k:
            return False
        path = self.write_replay(replay_source)
        rc, out = self.run_replay(path)
        os.remove(path)
        if rc == 1:
            line = 'KNOWN-FINDING: property=%s %s' % (self.pid, k['what'])
            print(line, flush=True)
            self.known_printed.append(line)
            return True
        self.note('listed finding %s no longer reproduces (rc=%s)' % (finding_id, rc))
        return False

    # ---- evidence --------------------------------------------------------
    def finish(self):
        obs = self.obligations
        n = len(obs)
        dis = [o for o in obs if o.status == 'discharged']
        inc = [o for o in obs if o.status == 'inconclusive']
        samples = [o.sample for o in obs if o.sample][:12]
        if not samples:
            samples = [o.name + ': ' + str(o.bounds) for o in obs[:8]]
        cov = {
            'evaluations': max(1, sum(max(1, o.paths) for o in obs)),
            'distinct_nontrivial': len({o.name for o in dis if o.nontrivial}),
            'rule': ('one evaluation = one symbolic execution path decided by the solver '
                     '(its whole input region at once); distinct_nontrivial counts distinct '
                     'obligations discharged whose reachability twin / path-condition was '
                     'shown satisfiable (non-vacuous)'),
            'samples': samples,
            'obligations': n,
            'discharged': len(dis),
            'inconclusive': len(inc),
            'known_findings': len([o for o in obs if o.status == 'known']),
            'violated': len([o for o in obs if o.status == 'violated']),
            'harness_errors': self.harness_errors,
            'states': max(1, sum(o.paths for o in obs)),
            'transitions': max(1, sum(o.queries or o.paths for o in obs)),
            'traces_validated_against_impl': sum(v.get('cases', 0) for v in self.validation),
            'solver_seconds': round(sum(o.seconds for o in obs), 1),
            'functions_encoded': self.functions,
            'outside_the_claim': self.outside,
            'translator_validation': self.validation,
            'obligation_list': [o.as_dict() for o in obs],
            'known_finding_lines': self.known_printed,
            'notes': self.notes,
            'checker_cmd': './run.sh %s %s' % (self.pid, self.tier),
            'trusted_base': ['z3 5.1', 'cvc5 1.0.3', 'CrossHair 0.0.110', 'CPython 3.12'],
            'explanation': ('bounded symbolic checking of the real functions; see '
                            'obligation_list for bounds per obligation'),
            'exhaustive': False,
        }
        cov.update(self.extra)
        ev = {
            'property_id': self.pid, 'tier': self.tier, 'seed': self.seed,
            'level': self.level, 'coverage': cov, 'assumptions': self.assumptions,
            'wall_s': round(time.time() - self.t0, 1), 'violations': self.violations,
        }
        os.makedirs(os.path.join(OUT, 'evidence'), exist_ok=True)
        with open(os.path.join(OUT, 'evidence', self.pid + '.json'), 'w') as f:
            json.dump(ev, f, indent=1, default=str)
        print('[%s] %s: %d obligations, %d discharged, %d inconclusive, %d known, %d violated, '
              '%d harness errors, %.0fs' % (self.pid, self.tier, n, len(dis), len(inc),
                                           cov['known_findings'], cov['violated'],
                                           self.harness_errors, time.time() - self.t0), flush=True)
        if self.violations:
            return 1
        if self.harness_errors:
            return 2
        return 0

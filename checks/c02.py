"""C02 - scalar operator semantics (Engine B arithmetic on IEEE doubles, Engine A comparisons / & / ^)."""
import os
import sys
sys.path.insert(0, "/verif/harness")
from vlib.core import Check, ROOT
from vlib.symrun import run_tasks
from vlib.xh import Harness, Batch

REPLAY = '''\
import sys, math, warnings; warnings.simplefilter('ignore')
sys.path.insert(0, '/verif/harness')
import numpy as np, schedula as sh
import formulas
from formulas.functions.operators import OPERATORS
from formulas.tokens.operand import XlError
cex = %r
import c02_pool
POOL = c02_pool.POOL
op = cex['op']
vals = [cex['x'] if k == 'sym' else cex['y'] if k == 'sym2' else POOL[k] for k in cex['kinds']]
r = OPERATORS[op](*vals)
r = np.ravel(r)[0] if isinstance(r, np.ndarray) else r
want = c02_pool.concrete_spec(op, vals)
ok = (r is want) if isinstance(want, XlError) else (isinstance(r, (int, float)) and not isinstance(r, bool) and math.isfinite(r) and r == want)
print(op, vals, '->', repr(r), 'statement:', repr(want))
if not ok:
    print('REPRODUCED: operator %%s on %%r gives %%r, statement says %%r' %% (op, vals, r, want)); sys.exit(1)
sys.exit(0)
'''


def run(tier, seed):
    ck = Check('C02', tier, seed)
    import formulas.functions as F, formulas.functions.operators as OP, formulas.functions.look as L, formulas.functions.text as TX
    ck.encode(F.wrap_ufunc, F.get_error, F.flatten, F.replace_empty, F.convert_nan, F.convert_noshp,
              OP.logic_input_parser, L._get_type_id, TX._str)
    ck.assume('the safe_eval closure (error check, input parser, operator lambda, convert_noshp, convert_nan, exception mapping) is taken out of OPERATORS[op]; the numpy.vectorize wrapper around it is validated concretely on the pool cross product (public_vs_kernel)',
              'module-level float shadowed by a proxy-aware version; numpy.isfinite stubbed (scalar contract)',
              'text operands come from a concrete pool; numeric operands are symbolic IEEE doubles (all finite doubles incl. +-0, subnormals)',
              'comparisons / & : symbolic int | bool | ASCII str(len <= 2) operands (no floats on these paths); text order = case-insensitive code-point order')
    ck.out_of_scope('numeric results of ^ beyond the 22 x 22 boundary pool (SMT has no pow)', 'array operands (C05)',
                    'text "inf"/"nan" (accepted by float(); not in the pool)')
    quick = tier == 'quick'
    T = [dict(name='public_wrapper_vs_kernel', module='c02_sym', func='public_vs_kernel', timeout=600,
              bounds='15 operators x 22 x 22 concrete pool operands', engine='translator validation (concrete)')]
    import c02_pool
    names = list(c02_pool.POOL)
    jobs = [(op, None, True) for op in ('+', '-', '*', '%', 'U-', 'U+')]
    jobs += [('/', names[:8], False), ('/', names[8:15], False), ('/', names[15:], False), ('/', [], True)]
    for op, kinds, both in jobs:
        T.append(dict(name='arith_%s%s' % (op, '' if kinds is None else '_' + (kinds[0] if kinds else 'symsym')), module='c02_sym', func='arith',
                      args={'op': op, 'kinds': kinds, 'both_symbolic': both}, timeout=1500,
                      bounds='x (and y) any finite double, partner from the 22-kind pool, both positions; plus 64 concrete kind pairs',
                      engine='symtrace z3 QF_FP', replay=lambda cex: REPLAY % cex))
    run_tasks(ck, T)
    ck.validation.append({'what': 'public operator wrapper vs extracted safe_eval kernel', 'cases': 15 * 22 * 22})
    src = open(os.path.join(ROOT, 'harness', 'c02_cmp.py')).read()
    hs, batch = [], Batch()
    try:
        h = Harness(ck, 'c02_cmp', src); hs.append(h)
        batch.add(h, 300 if quick else 900, only=['cmp_total_nn_ok', 'cmp_total_nb_ok', 'cmp_total_ns_ok', 'cmp_total_ss_ok', 'cmp_total_s1_ok', 'cmp_blank_ok', 'cmp_error_ok', 'concat_ok', 'concat_str_ok'])
        for a in range(22):
            bits = ', '.join('a%d == %s' % (i, bool(a >> i & 1)) for i in range(5))
            s = src.replace('pre: sel(a0, a1, a2, a3, a4) < len(POW) and', 'pre: %s\n    pre:' % bits.replace(', ', ' and '))
            h = Harness(ck, 'c02_pow_a%d' % a, s); hs.append(h)
            batch.add(h, 120, only=['power_ok'], bounds='base = pool entry %d, exponent any of the 22 pool entries' % a)
        batch.run()
    finally:
        for h in hs:
            h.cleanup()
    return ck.finish()

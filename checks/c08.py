"""C08 - compiled functions agree with interpretation (tier S, Engine A as path explorer)."""
import os
from vlib.core import Check, ROOT
from vlib.xh import Harness, Batch


BLANK_WITNESS = '''\
import sys, warnings, logging; warnings.simplefilter('ignore'); logging.disable(logging.CRITICAL)
import formulas
P = "'[b]S'!"
d = {P + 'A1': 1, P + 'B1': '=SUM(%sA1:A3)' % P}
mk = lambda: formulas.ExcelModel().from_dict(d).finish(complete=False)
want = mk().calculate(inputs={P + 'A3': 5})[P + 'B1'].value[0, 0]
got = mk().compile([P + 'A3'], [P + 'B1'])(5).value[0, 0]
print('calculate with A3 = 5 gives B1 =', want, '; the function compiled for input A3 returns', got)
if float(got) != float(want):
    print('REPRODUCED: a compile input that is a blank cell of the model (known to a range only) is ignored'); sys.exit(1)
sys.exit(0)
'''


def run(tier, seed):
    ck = Check('C08', tier, seed, level='exploration')
    import formulas.excel as EX, formulas.builder as FB
    ck.encode(EX.ExcelModel.compile, FB.AstBuilder.compile, EX.ExcelModel.calculate)
    ck.assume('template, input node list, output node list, formula and argument values are boolean selectors; each explored path runs the real compile() and the real calculate() natively and compares them',
              'argument values come from an 8-entry pool (number, fraction, logical, numeric text, text, zero, #DIV/0!, another number) chosen so that branch, error and array shape differ from the stored values')
    ck.out_of_scope('"every argument tuple": only pool values are reached (exploration, not proof)', 'input lists overlapping the output list',
                    'workbooks outside the three template families')
    ck.check_known_witness('C08-blank-cell-as-compile-input', BLANK_WITNESS)
    quick = tier == 'quick'
    src = open(os.path.join(ROOT, 'harness', 'c08_compile.py')).read()
    hs, batch = [], Batch()
    T_ = 300 if quick else 1500
    try:
        for t in range(3):
            for i in range(15):
                s = src.replace('__T__', str(t)).replace('__I__', str(i)).replace('__F__', '0').replace('__KNOWN_ABSENT__', 'True')
                if quick:
                    s = s.replace('pre: sel(o0, o1, o2) < len(OUTPUTS)', 'pre: sel(o0, o1, o2) < len(OUTPUTS) and sel(b0, b1, b2) in (0, 3, 4, 6)')
                h = Harness(ck, 'c08_model_t%d_i%d' % (t, i), s); hs.append(h)
                batch.add(h, T_, only=['compiled_ok'], bounds='template %d, input list #%d, 5 output lists, argument values from the 8-entry pool%s; two successive calls' % (t, i, ' (second argument: 4 entries)' if quick else ''))
        for f in range(12):
            s = src.replace('__T__', '0').replace('__I__', '0').replace('__F__', str(f)).replace('__KNOWN_ABSENT__', 'True')
            h = Harness(ck, 'c08_formula_f%d' % f, s); hs.append(h)
            batch.add(h, T_, only=['formula_ok'], bounds='formula #%d compiled alone, 8^3 argument triples in inputs-mapping order vs literals written in' % f)
        batch.run()
    finally:
        for h in hs:
            h.cleanup()
    return ck.finish()

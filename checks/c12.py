"""C12 - core function library (Engine B: rounding on symbolic decimals, integer kernels on doubles;
Engine A: text / logic / information; selectors: aggregations)."""
import os
from vlib.core import Check, ROOT
from vlib.symrun import run_tasks
from vlib.xh import Harness, Batch

REPLAY_ROUND = '''\
import sys, warnings; warnings.simplefilter('ignore')
from decimal import Decimal, ROUND_HALF_UP, ROUND_DOWN, ROUND_UP
import formulas
name, e, d, cex = %r, %r, %r, %r
k = cex['k']
x = Decimal(k).scaleb(-e)
mode = {'ROUND': ROUND_HALF_UP, 'ROUNDUP': ROUND_UP, 'ROUNDDOWN': ROUND_DOWN, 'TRUNC': ROUND_DOWN}[name]
want = float(x.quantize(Decimal(1).scaleb(-d), rounding=mode)) if d < e else float(x)
import numpy as np
got = np.ravel(formulas.get_functions()[name](float(x), d))[0]
print(name, float(x), d, '->', got, 'decimal arithmetic:', want)
if not (isinstance(got, float) and got == want):
    print('REPRODUCED: %%s(%%r, %%d) = %%r, decimal rounding gives %%r' %% (name, float(x), d, got, want)); sys.exit(1)
sys.exit(0)
'''

REPLAY_NUMERIC = '''\
import sys, math, warnings; warnings.simplefilter('ignore')
import numpy as np, formulas
F = formulas.get_functions()
kind, cex = %r, %r
bad = None
def g(name, *a):
    return np.ravel(F[name](*a))[0]
if kind in ('EVEN', 'ODD'):
    x = cex['x']; r = g(kind, x)
    par = (r %% 2 == 0) if kind == 'EVEN' else (r %% 2 == 1)
    if not (float(r).is_integer() and par and abs(r) >= abs(x) and abs(r) - 2 < abs(x) and (r <= 0 if x < 0 else r >= 0)):
        bad = '%%s(%%r) = %%r' %% (kind, x, r)
elif kind == 'INTSIGNABS':
    x = cex['x']; i, s, a = g('INT', x), g('SIGN', x), g('ABS', x)
    if not (i == math.floor(x) and s == (x > 0) - (x < 0) and a == abs(x)):
        bad = 'INT, SIGN, ABS(%%r) = %%r, %%r, %%r' %% (x, i, s, a)
else:
    n, s = cex['n'], cex['sig']; r = g(kind, n, s)
    if s == 0:
        want = 0 if kind == 'CEILING' else '#DIV/0!'
    elif s < 0 < n:
        want = '#NUM!'
    else:
        want = (math.ceil if kind == 'CEILING' else math.floor)(n / s) * s
    if str(r) != str(want) and r != want:
        bad = '%%s(%%r, %%r) = %%r, expected %%r' %% (kind, n, s, r, want)
if bad:
    print('REPRODUCED:', bad); sys.exit(1)
sys.exit(0)
'''


def _witness(formula, good, what):
    return '''\
import sys, warnings; warnings.simplefilter('ignore')
import numpy as np
import formulas
v = np.ravel(np.asarray(formulas.Parser().ast(%r)[1].compile()(), object))[0]
print(%r, '=', v, '(Excel: %s)')
if str(v) != %r:
    print('REPRODUCED: %s'); sys.exit(1)
sys.exit(0)
''' % (formula, formula, good, good, what)


WITNESSES = [
    ('C12-floor-ceiling-binary-scaling', _witness('=FLOOR(0.7,0.1)', '0.7', 'FLOOR / CEILING scale in binary floating point')),
    ('C12-search-without-wildcards', _witness('=SEARCH("b?d","abcd")', '2', 'SEARCH does not honour wildcards')),
    ('C12-value-of-formatted-text', _witness('=VALUE("1,234")', '1234.0', 'VALUE reads formatted numbers through a date parser')),
]


def run(tier, seed):
    ck = Check('C12', tier, seed)
    import formulas.functions.math as M, formulas.functions.text as TX, formulas.functions.logic as LG, \
        formulas.functions.info as IN, formulas.functions.stat as ST, formulas.functions as F
    ck.encode(M.xround, M.round_up, M.xtrunc, M.xeven, M.xodd, M.xceiling, TX.xleft, TX.xright, TX.xmid, TX.xreplace,
              TX.xfind, TX.xsearch, TX.xsubstitute, TX.xconcat, TX._str, LG.xif, LG.xiferror, LG.xifna, IN.iserror, IN.iserr,
              IN.isna, M.xsum, ST.xfunc, ST.xsort, F.flatten, F.is_number)
    ck.assume('rounding: x = k / 10^e with a symbolic integer |k| < 10^15; repr(float) / Decimal / float stubbed by exact decimal proxies under the contract "the shortest repr of the double nearest to a <= 15-digit decimal is that decimal" (LIA)',
              'EVEN / ODD / INT / SIGN / ABS: every normal double below 2^50 (QF_FP, numpy scalar stubs); CEILING / FLOOR: symbolic 20-bit integers against concrete significances',
              'text / logic / information: symbolic strings over {a b A B blank 1} of length <= 3..4, symbolic ints and booleans, selector-chosen errors; no wildcard characters in SEARCH',
              'aggregations: elements and typed arguments are boolean selectors over pools (numpy does the arithmetic)')
    ck.out_of_scope('trigonometry / EXP / LN / LOG / SQRT / POWER (libm, no SMT theory)', 'STDEV / VAR families, SUMPRODUCT, XOR / AND / OR over ranges, SWITCH, IFS, TEXTJOIN, VALUE\'s date parser',
                    'numeric text inside referenced ranges (the statement only fixes non-numeric text)', 'CEILING / FLOOR / MOD with fractional arguments', 'MOD')
    for fid, src_w in WITNESSES:
        ck.check_known_witness(fid, src_w)
    quick = tier == 'quick'
    T = []
    ds = [-2, 0, 1, 2, 3] if quick else [-2, -1, 0, 1, 2, 3, 4, 5, 6]
    es = [0, 2, 3] if quick else [0, 1, 2, 3, 4, 5, 6]
    for name in ('ROUND', 'ROUNDUP', 'ROUNDDOWN', 'TRUNC'):
        for e in es:
            for d in ds:
                T.append(dict(name='%s_e%d_d%d' % (name.lower(), e, d), module='c12_sym', func='rounding',
                              args={'name': name, 'e': e, 'd': d}, timeout=300, engine='symtrace z3 LIA',
                              bounds='%s(k/10^%d, %d) for every integer |k| < 10^15' % (name, e, d),
                              replay=(lambda cex, name=name, e=e, d=d: REPLAY_ROUND % (name, e, d, cex))))
    for which in ('EVEN', 'ODD'):
        T.append(dict(name=which.lower(), module='c12_sym', func='even_odd', args={'which': which}, timeout=900,
                      engine='symtrace z3+cvc5 QF_FP', bounds='every normal double |x| < 2^50',
                      replay=(lambda cex, which=which: REPLAY_NUMERIC % (which, cex))))
    T.append(dict(name='int_sign_abs', module='c12_sym', func='int_sign_abs', timeout=900, engine='symtrace z3+cvc5 QF_FP',
                  bounds='every finite double |x| < 2^52', replay=lambda cex: REPLAY_NUMERIC % ('INTSIGNABS', cex)))
    for which in ('CEILING', 'FLOOR'):
        for sig in ((-2, -1, 0, 2, 4) if quick else (-4, -2, -1, 0, 1, 2, 3, 4, 5)):
            T.append(dict(name='%s_sig%d' % (which.lower(), sig), module='c12_sym', func='ceiling_floor',
                          args={'which': which, 'sig': sig}, timeout=900, engine='symtrace z3+cvc5 QF_BVFP',
                          bounds='%s(n, %d) for every integer |n| < 2^20' % (which, sig),
                          replay=(lambda cex, which=which, sig=sig: REPLAY_NUMERIC % (which, dict(cex, sig=sig)))))
    import threading
    th = threading.Thread(target=run_tasks, args=(ck, T))
    th.start()
    hs, batch = [], Batch()
    TT = 170 if quick else 900
    try:
        src = open(os.path.join(ROOT, 'harness', 'c12_text.py')).read()
        h = Harness(ck, 'c12_text', src.replace('__START__', '0')); hs.append(h)
        batch.add(h, TT, only=['left_right_ok', 'mid_ok', 'replace_ok', 'len_case_trim_ok', 'text_coercion_ok', 'is_family_ok'])
        for st_ in range(8):
            h = Harness(ck, 'c12_text_p%d' % st_, src.replace('__START__', str(st_))); hs.append(h)
            only = ['find_ok', 'logic_ok'] + (['substitute_ok'] if st_ <= 6 else [])
            batch.add(h, TT, only=only, bounds={
                'find_ok': 'FIND / SEARCH: 8 find texts x all 40 within texts of length <= 3 over {a B blank}, start position %d (boolean selectors)' % (st_ - 1),
                'substitute_ok': 'SUBSTITUTE: all 40 texts of length <= 3 over {a B blank} x 8 old texts x 4 new texts, instance %s (boolean selectors)' % ('absent' if st_ == 6 else st_ - 1),
                'logic_ok': 'IF / NOT / IFERROR / IFNA: condition = pool value #%d, both branches from the 8-value pool, all 7 errors (boolean selectors)' % st_})
        asrc = open(os.path.join(ROOT, 'harness', 'c12_agg.py')).read()
        for fn in ('SUM', 'SUMSQ', 'PRODUCT', 'AVERAGE', 'MIN', 'MAX', 'MEDIAN', 'COUNT', 'COUNTA', 'COUNTBLANK', 'LARGE', 'SMALL'):
            h = Harness(ck, 'c12_agg_%s' % fn.lower(), asrc.replace('__FN__', repr(fn))); hs.append(h)
            batch.add(h, TT, only=['agg_ok'], bounds='%s over every multiset of 3 referenced cells from an 8-entry pool (numbers, text, logicals, blank) x 6 typed arguments x 3 cell orders (boolean selectors)' % fn)
        batch.run()
        th.join()
    finally:
        for h in hs:
            h.cleanup()
    return ck.finish()

"""C10 - circular references (Engine A; cycle analysis fully, workbook level tier S)."""
import os
from vlib.core import Check, ROOT
from vlib.xh import Harness, Batch


RANGE_WITNESS = '''\
import sys, warnings, logging; warnings.simplefilter('ignore'); logging.disable(logging.CRITICAL)
import formulas
P = "'[b]S'!"
d = {P + 'A1': False, P + 'B1': '=IF(%sA1,SUM(%sC1:C2),1)' % (P, P), P + 'C1': '=%sB1' % P, P + 'C2': '=%sB1+1' % P}
sol = formulas.ExcelModel().from_dict(d).finish(circular=True).calculate()
got = [sol[P + c].value[0, 0] for c in ('B1', 'C1', 'C2')]
print('B1, C1, C2 =', got, '(1, 1, 2: the range is read only in the branch that is not selected)')
if [str(x) for x in got] != ['1', '1', '2.0'] and got != [1, 1, 2]:
    print('REPRODUCED: two cycles through one range inside an unselected IF branch do not resolve'); sys.exit(1)
sys.exit(0)
'''


def run(tier, seed):
    ck = Check('C10', tier, seed, level='exploration')
    import formulas.excel.cycle as CY, formulas.excel as EX, formulas.cell as CE, formulas.functions.logic as LG
    ck.encode(CY.simple_cycles, CY._strongly_connected_components, CY._strong_connect, CY._unblock, CY._remove_node,
              CY._subgraph, LG.solve_cycle, CE.CellWrapper.check_cycles, EX._check_cycles, EX._check_range_all_cycles,
              EX.ExcelModel.solve_circular)
    ck.assume('adjacency matrices are boolean arguments (each graph is one path; the solver shows no graph is left)',
              'workbook level: formula kinds and the guard value are boolean selectors; the oracle is a lazy evaluator over the same ring plus the classification acyclic / unavoidable / must_resolve / free written from the statement (harness/c10_books.py)',
              'schedula workflow clock stubbed')
    ck.out_of_scope('graphs with more than 4 nodes', 'cycles through defined names, ranges wider than two cells', 'cell orders other than the 4 listed insertion orders, hash seeds other than the listed ones (2 quick / 5 thorough)',
                    'rings longer than 3 cells')
    ck.check_known_witness('C10-cycles-sharing-a-range', RANGE_WITNESS)
    quick = tier == 'quick'
    hs, batch = [], Batch()
    T = 170 if quick else 900
    try:
        src = open(os.path.join(ROOT, 'harness', 'c10_cycles.py')).read()
        h = Harness(ck, 'c10_cycles', src.replace('__FIX__', '0')); hs.append(h)
        batch.add(h, T, only=['cycles3_ok', 'lazy_predicates_ok'], bounds={
            'cycles3_ok': 'all 512 digraphs on 3 nodes (self-loops included) x all 8 skip sets',
            'lazy_predicates_ok': 'all in-cycle flag combinations of IF / IFERROR / IFNA / IFS arguments'})
        for fix in range(8):
            h = Harness(ck, 'c10_cycles4_%d' % fix, src.replace('__FIX__', str(fix))); hs.append(h)
            batch.add(h, T, only=['cycles4_ok'], bounds='all loop-free digraphs on 4 nodes whose first adjacency row is %s (512 graphs)' % format(fix, '03b'))
        bsrc = open(os.path.join(ROOT, 'harness', 'c10_books.py')).read()
        b2 = open(os.path.join(ROOT, 'harness', 'c10_books2.py')).read()
        b3 = open(os.path.join(ROOT, 'harness', 'c10_books3.py')).read()
        # cell order: every workbook is built in 4 insertion orders and must give one outcome; hash seed: the
        # exploration is repeated in processes under other PYTHONHASHSEED values, which compare every outcome
        # with a seed-0 child interpreter
        for hsd in ([0, 1] if quick else [0, 1, 2, 3, 1 + seed % 4000000000]):
            tag = '# PYTHONHASHSEED = %d\n' % hsd
            for ka in range(6):
                if quick and hsd and ka % 2 != seed % 2:
                    continue
                h = Harness(ck, 'c10_books_a%d_hs%d' % (ka, hsd), tag + bsrc.replace('__KIND_A__', str(ka))); hs.append(h)
                batch.add(h, T, only=['book_ok'], bounds='ring A1->B1->C1->A1, A1 of kind %d, B1 and C1 any of 6 kinds (constant, plain, IF-then, IF-else, IFERROR fallback, both IF branches), guard TRUE/FALSE: 72 workbooks x 4 cell orders, PYTHONHASHSEED=%d' % (ka, hsd))
            for kb in range(4):
                if quick and hsd and kb % 2 != seed % 2:
                    continue
                h = Harness(ck, 'c10_books3_b%d_hs%d' % (kb, hsd), tag + b3.replace('__KB__', str(kb)).replace('__KNOWN__', 'True')); hs.append(h)
                batch.add(h, T, only=['book3_ok'], bounds='cycles THROUGH A RANGE: B1 = expression #%d reading SUM(C1:C2) plainly or inside an IF branch, C1 and C2 any of 3 expressions each (constant, back reference, guarded back reference), both guards TRUE/FALSE: 36 workbooks x 4 cell orders, PYTHONHASHSEED=%d; known finding C10-cycles-sharing-a-range excluded' % (kb, hsd))
            for kb in range(6):
                if quick and hsd and kb % 2 != seed % 2:
                    continue
                h = Harness(ck, 'c10_books2_b%d_hs%d' % (kb, hsd), tag + b2.replace('__KB__', str(kb))); hs.append(h)
                batch.add(h, T, only=['book2_ok'], bounds='B1 = expression #%d (nested IF guards, up to two guarded back references), C1 and D1 any of 4 expressions each, both guards TRUE/FALSE: 64 workbooks with cycles sharing a cell x 4 cell orders, PYTHONHASHSEED=%d' % (kb, hsd))
        batch.run()
    finally:
        for h in hs:
            h.cleanup()
    return ck.finish()

"""C14 - unresolved items degrade locally (tier S: the fault schedule is the selector)."""
import os
from vlib.core import Check, ROOT
from vlib.xh import Harness, Batch

WITNESS = '''\
import sys, logging, warnings; warnings.simplefilter('ignore')
logging.disable(logging.CRITICAL)
import formulas
P = "'[b]S'!"
m = formulas.ExcelModel().from_dict({P + 'A1': 1, P + 'A2': 2, P + 'C1': '=SUM(%sA1:A3)' % P}).finish()
v = m.calculate()[P + 'A1'].value[0, 0]
print('A1 =', v)
if str(v) == '#REF!':
    print('REPRODUCED: a constant under a range of an absent book is overwritten by #REF!'); sys.exit(1)
sys.exit(0)
'''


def run(tier, seed):
    ck = Check('C14', tier, seed, level='fault_enumeration')
    import formulas.cell as CE, formulas.excel as EX, formulas.functions as F, formulas.builder as FB
    ck.encode(CE.CellWrapper.__call__, CE.Cell.compile, EX.ExcelModel.complete, EX.ExcelModel.from_dict, F.not_implemented,
              FB.AstBuilder.__init__)
    ck.assume('the fault schedule (which of 10 fault kinds each of three formula cells carries, finished or not) is chosen by boolean selectors; every explored path builds and calculates the real model natively',
              'missing / unreadable workbook FILES are represented by references to a book that does not exist on disk (dictionary-built models)')
    ck.out_of_scope('workbooks read from .xlsx files other than the one-sheet harness workbook', 'dependency graphs larger than the 10-cell template', 'faults inside defined names other than an undefined name')
    ck.check_known_witness('C14-absent-range-overrides-known-cells', WITNESS)
    quick = tier == 'quick'
    src = open(os.path.join(ROOT, 'harness', 'c14_faults.py')).read()
    hs, batch = [], Batch()
    try:
        for f1 in range(11):
            h = Harness(ck, 'c14_faults_%d' % f1, src.replace('__F1__', str(f1))); hs.append(h)
            batch.add(h, 170 if quick else 900, only=['faults_ok'],
                      bounds='fault kind %d on B1, any of 10 kinds on B2 and on T!A1, finished or not: 200 fault schedules' % f1)
        fsrc = open(os.path.join(ROOT, 'harness', 'c14_files.py')).read()
        h = Harness(ck, 'c14_files', fsrc); hs.append(h)
        batch.add(h, 300 if quick else 900, only=['files_ok'], bounds='a workbook READ FROM A FILE (names from its name table): each of two formula cells carries one of 10 faults (unknown function incl. non-ASCII names and _xlfn., absent sheet, absent workbook, undefined name, defined name over / alias of an undefined name): 100 schedules')
        batch.run()
    finally:
        for h in hs:
            h.cleanup()
    return ck.finish()

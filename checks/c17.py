"""C17 - copies and serialised models are equivalent and independent (tier S)."""
import os
from vlib.core import Check, ROOT
from vlib.xh import Harness, Batch


def run(tier, seed):
    ck = Check('C17', tier, seed, level='exploration')
    import formulas.excel as EX, formulas.functions as F, formulas.ranges as R
    ck.encode(EX.ExcelModel.__getstate__, F.Array.__reduce__, F.Array.__setstate__, F.Array.__deepcopy__, R.Ranges.__init__)
    ck.assume('template, kind of copy (copy.deepcopy, dill round trip, copy of a dill copy), the operation applied to the original, the operation applied to the copy (interleaved), whether the original already had a history, and the observed override set are boolean selectors; every path runs natively',
              'equivalence and independence are both measured against a FRESH model given the same inputs')
    ck.out_of_scope('interleavings longer than one operation on each side', 'models loaded from files')
    quick = tier == 'quick'
    src = open(os.path.join(ROOT, 'harness', 'c17_copies.py')).read()
    hs, batch = [], Batch()
    try:
        import sys
        sys.path.insert(0, os.path.join(ROOT, 'harness'))
        nops = 16
        import random
        rnd = random.Random(seed)
        opsb = tuple(sorted(rnd.sample(range(14), 1) + [14, 15]))      # thorough: EVERY operation on the original, 3 of the 16 on the copy
        sets = tuple(sorted({0, 14} | set(rnd.sample(range(1, 16), 2))))   # and 3-4 of the 16 override sets, drawn from the seed
        for t in range(3):
            for opa in (range(nops) if not quick else [3, 5, 14, 15]):
                s = src.replace('__T__', str(t)).replace('__OPA__', str(opa))
                if quick:
                    s = s.replace('sel(b0, b1, b2, b3) < NM and sel(k0, k1, k2, k3) < NS', 'sel(b0, b1, b2, b3) in (3, 5, 14, 15) and sel(k0, k1, k2, k3) in (0, 9, 14)')
                else:
                    s = s.replace('sel(b0, b1, b2, b3) < NM and sel(k0, k1, k2, k3) < NS', 'sel(b0, b1, b2, b3) in %r and sel(k0, k1, k2, k3) in %r' % (opsb, sets))
                h = Harness(ck, 'c17_copy_t%d_op%d' % (t, opa), s); hs.append(h)
                batch.add(h, 300 if quick else 1500, only=['model_copy_ok'], ppt=120,
                          bounds='template %d, operation %d on the original, %s on the copy, 3 kinds of copy, with / without history, %s override sets' % (
                              t, opa, '4 operations' if quick else '3 operations %r' % (opsb,), '3' if quick else '%d (%r)' % (len(sets), sets)))
            s = src.replace('__T__', str(t)).replace('__OPA__', '0')
            if quick:
                s = s.replace('''    pre: sel(c0, c1) < 3
    post: _
    \"\"\"
    return concrete(_func''', '''    pre: sel(c0, c1) < 3 and sel(a0, a1, a2) in (0, 4, 6) and sel(b0, b1, b2) in (1, 3, 7)
    post: _
    \"\"\"
    return concrete(_func''')
            if not quick:     # thorough: argument values from a seeded 3 x 3 of the 8 x 8 pool
                s = s.replace('''    pre: sel(c0, c1) < 3
    post: _
    \"\"\"
    return concrete(_func''', '''    pre: sel(c0, c1) < 3 and sel(a0, a1, a2) in %r and sel(b0, b1, b2) in %r
    post: _
    \"\"\"
    return concrete(_func''' % (tuple(sorted(rnd.sample(range(8), 3))), tuple(sorted(rnd.sample(range(8), 3)))))
            h = Harness(ck, 'c17_func_t%d' % t, s); hs.append(h)
            batch.add(h, 300 if quick else 1500, only=['func_copy_ok'] + (['circular_copy_ok'] if t == 0 else []), ppt=120, bounds={
                'func_copy_ok': 'template %d: compiled functions over 4 input lists (cells, name, 2x2 block) x %s argument values x 3 kinds of copy' % (t, '3 x 3' if quick else '3 x 3 (seeded) of 8 x 8'),
                'circular_copy_ok': 'a model with guarded circular references, 3 kinds of copy x 4 guard settings'})
        batch.run()
    finally:
        for h in hs:
            h.cleanup()
    return ck.finish()

"""C18 - the parser is total (Engines A + B + C)."""
import os
from vlib.core import Check, ROOT
from vlib.symrun import run_tasks
from vlib.xh import Harness, Batch

REPLAY_NUM = '''\
import sys, warnings; warnings.simplefilter('ignore')
import formulas
from formulas.errors import FormulaError
s = %r
try:
    v = formulas.Parser().ast('=' + s)[1].compile()()
except FormulaError as e:
    import re
    if re.fullmatch(r'([0-9]+(\\.[0-9]+)?|\\.[0-9]+)([Ee][+-][0-9]+)?', s):
        print('REPRODUCED: numeric literal %%r (a form Excel writes) is rejected' %% s); sys.exit(1)
    print('rejected cleanly'); sys.exit(0)
except BaseException as e:
    print('REPRODUCED: numeric literal %%r escapes as %%s: %%s' %% (s, type(e).__name__, e)); sys.exit(1)
if float(v) != float(s):
    print('REPRODUCED: numeric literal %%r has value %%r' %% (s, v)); sys.exit(1)
print('ok', v); sys.exit(0)
'''


COLON_WITNESS = '''\
import sys, warnings; warnings.simplefilter('ignore')
import formulas
try:
    r = formulas.Parser().ast('=:A1')
    print('=:A1 is accepted and read as', r[1][-1].get_expr)
    print('REPRODUCED: the range operator without a first corner is not rejected'); sys.exit(1)
except formulas.errors.FormulaError:
    print('=:A1 is rejected'); sys.exit(0)
'''


def run(tier, seed):
    ck = Check('C18', tier, seed)
    import formulas.parser as FP, formulas.tokens as T, formulas.tokens.operand as TD, formulas.builder as FB
    import formulas.tokens.operator as TO, formulas.tokens.parenthesis as TP, formulas.tokens.function as TF
    ck.encode(FP.Parser.ast, T.Token.__init__, TD.Number.compile, TD.Operand.ast, TP.Parenthesis.ast, TO.Operator.ast,
              TO.Operator.update_name, TO.Separator.ast, TF.Function.ast, TF.Array.ast, FB.AstBuilder.append)
    ck.assume('token spellings are chosen by boolean selector variables from a 22-word vocabulary (solver-driven concretisation); regexes run concretely',
              'numeric literals: language of the <name> group read from the live Number._re (atomic groups over-approximated, sound for inclusion), converters eval/int/float replaced by their documented grammars as z3 regexes, case transformations tracked symbolically; length <= 12',
              'rejection classes decided syntactically on the token list by the harness (spec in harness/c18_soup.py: must_reject)')
    ck.out_of_scope('arbitrary printable strings (tokenisation of a symbolic string needs regex capture semantics)',
                    'token sequences longer than the tier bound', 'numeric VALUE of literals (float(s) semantics trusted)')
    known_colon = ck.check_known_witness('C18-colon-without-first-corner', COLON_WITNESS)
    quick = tier == 'quick'
    tasks = [
        dict(name='numeric_literals_accepted', module='c18_sym', func='number_literals', timeout=600,
             bounds='every string of the numeric-literal language of Number._re, length <= 12', engine='symtrace + rx2smt (z3 strings)',
             replay=lambda cex: REPLAY_NUM % cex.get('s', '')),
        dict(name='numeric_forms_tokenised', module='c18_sym', func='number_forms_accepted', timeout=600,
             bounds='digits[.digits][E(+|-)digits] and .digits[E..], length <= 14', engine='rx2smt (z3 regex inclusion)',
             replay=lambda cex: REPLAY_NUM % cex.get('s', '')),
        dict(name='token_patterns_make_progress', module='c18_sym', func='filters_progress', timeout=600,
             bounds='all 10 token patterns of Parser.filters, unbounded length', engine='rx2smt (z3 regex)'),
    ]
    run_tasks(ck, tasks)
    src = open(os.path.join(ROOT, 'harness', 'c18_soup.py')).read().replace('__KNOWN_COLON__', 'True' if known_colon else 'False')
    hs, batch = [], Batch()
    T_ = 170 if quick else 900
    try:
        # sequences of length <= 3 (quick) / 4 (thorough): the first L-2 tokens are fixed per copy
        def add(prefix, only):
            s = src.replace('__PREFIX__', repr(tuple(prefix))).replace('__VALID__', 'None')
            h = Harness(ck, 'c18_soup_' + ('_'.join(map(str, prefix)) or 'e'), s); hs.append(h)
            batch.add(h, T_, only=only, bounds='token sequences %s + %d free tokens over the 23-word vocabulary (incl. tab, line break, a lower-case error literal)' % (
                list(prefix), 1 if only == ['soup1_ok'] else 2))
        add((), ['soup1_ok', 'soup2_ok', 'valid_ok'])
        for a in range(23):
            add((a,), ['soup2_ok'])
        if not quick:
            for a in range(23):
                for b in range(23):
                    add((a, b), ['soup2_ok'])
        for f in range(7):
            s = src.replace('__PREFIX__', '()').replace('__VALID__', 'None').replace('pre: 0 <= f < len(VALID)', 'pre: f == %d' % f)
            if quick:
                s = s.replace('pre: not (k2 or k3)', 'pre: not (k2 or k3)\n    pre: sel(t0, t1, t2, t3, t4) in (0, 1, 4, 6, 7, 13, 14, 15, 17, 18, 19, 20, 22) or sel(k0, k1) == 0')
            h = Harness(ck, 'c18_edit_f%d' % f, s); hs.append(h)
            batch.add(h, T_, only=['edit_ok'], bounds='every single-token deletion / insertion / replacement of valid formula #%d%s' % (f, ' (10-token subset)' if quick else ''))
        batch.run()
    finally:
        for h in hs:
            h.cleanup()
    return ck.finish()

"""C07 - recalculation with overrides leaves no trace (tier S, Engine A as path explorer)."""
import os
from vlib.core import Check, ROOT
from vlib.xh import Harness, Batch


NAME_WITNESS = '''\
import sys, warnings; warnings.simplefilter('ignore')
import formulas
P = "'[b]S'!"; NM = "'[b]'!NM"
d = {P + 'A1': '=#DIV/0!', NM: '=%sA1' % P, P + 'E1': '=%sA1*10' % P}
v = formulas.ExcelModel().from_dict(d).finish(complete=False).calculate(inputs={NM: 9})[P + 'E1'].value[0, 0]
print('E1 =', v, '(90 when A1 itself is supplied)')
if str(v) != '90.0' and v != 90:
    print('REPRODUCED: a value supplied through a defined name does not reach an underlying cell that held an error'); sys.exit(1)
sys.exit(0)
'''


BLANK_WITNESS = '''\
import sys, warnings, logging; warnings.simplefilter('ignore'); logging.disable(logging.CRITICAL)
import formulas
P = "'[b]S'!"; NB = "'[b]'!NB"
d = {P + 'H1': 1, P + 'H2': 2, NB: '=%sH3' % P, P + 'K5': '=SUM(%sH1:H3)' % P, P + 'K6': '=%s+1' % NB}
mk = lambda: formulas.ExcelModel().from_dict(d).finish(complete=False)
a = mk().calculate(inputs={NB: 5})[P + 'K5'].value[0, 0]
b = mk().calculate(inputs={P + 'H3': 5})[P + 'K5'].value[0, 0]
print('K5 = SUM(H1:H3) with NB (-> blank H3) = 5:', a, '; with H3 = 5:', b)
if float(a) != float(b):
    print('REPRODUCED: a value supplied through a name does not reach a blank cell that a range reads'); sys.exit(1)
sys.exit(0)
'''


def run(tier, seed):
    ck = Check('C07', tier, seed, level='exploration')
    import formulas.excel as EX, formulas.cell as CE, formulas.ranges as RG
    ck.encode(EX.ExcelModel.calculate, EX.ExcelModel.compile, EX.ExcelModel.to_dict, EX.ExcelModel.write,
              EX.ExcelModel.inverse_references, CE.InvRangesAssembler.__call__, CE.RangesAssembler.__call__, RG.Ranges.value)
    ck.assume('models are built by the real ExcelModel().from_dict(...).finish(complete=False) from three template families (harness/models.py); every variable (template, history, override set, output mask) is a boolean selector and each explored path runs the real code natively',
              'both sides of every comparison are the real code: the model with a history vs a fresh model; a supplied value vs the same value stored as a constant')
    ck.out_of_scope('histories longer than 3 operations (statement: 8)', 'models loaded from .xlsx files', 'workbooks outside the three template families',
                    'symbolic cell VALUES (numpy / schedula cannot carry proxies)')
    ck.check_known_witness('C07-name-over-error-cell', NAME_WITNESS)
    ck.check_known_witness('C07-override-does-not-reach-blank-cells', BLANK_WITNESS)
    quick = tier == 'quick'
    src = open(os.path.join(ROOT, 'harness', 'c07_hist.py')).read()
    hs, batch = [], Batch()
    T_ = 300 if quick else 1500
    import random
    rnd = random.Random(seed)
    ops3 = tuple(sorted(rnd.sample(range(14), 4)))
    sets3 = tuple(sorted({0, 14, 15} | set(rnd.sample(range(1, 14), 3))))
    try:
        for t in range(3):
            s_rel = src.replace('__T__', str(t)).replace('__OP1__', 'None').replace('__KNOWN_NB__', 'True')
            if quick:
                s_rel = s_rel.replace('pre: sel(m0, m1, m2, m3, m4, m5, m6) > 0', 'pre: sel(m0, m1, m2, m3, m4, m5, m6) > 0 and sel(i0, i1, i2) in (0, 4, 6)')
            h = Harness(ck, 'c07_rel_t%d' % t, s_rel); hs.append(h)
            batch.add(h, T_, only=['as_if_constant_ok', 'name_and_range_ok', 'override_formula_ok', 'outputs_ok'], bounds={
                'as_if_constant_ok': 'template %d, (A1, A2) supplied from the 8 x 8 value pool vs stored as constants' % t,
                'name_and_range_ok': 'template %d, 8 x 8 pool values through the defined name / the two-cell range vs the cells' % t,
                'override_formula_ok': 'template %d, formula cell B1 overridden by each of 8 pool values' % t,
                'outputs_ok': 'template %d, all 127 non-empty output subsets x %s pool values' % (t, '3' if quick else '8')})
            for op1 in range(14):
                s_h = src.replace('__T__', str(t)).replace('__OP1__', str(op1)).replace('__KNOWN_NB__', 'True')
                if not quick:   # third operation and observed override set from seeded samples (every first and second operation)
                    s_h = s_h.replace('sel(p0, p1, p2, p3) < M.NOPS and sel(k0, k1, k2, k3) < NS', 'sel(p0, p1, p2, p3) in %r and sel(k0, k1, k2, k3) in %r' % (ops3, sets3))
                h = Harness(ck, 'c07_hist_t%d_op%d' % (t, op1), s_h); hs.append(h)
                batch.add(h, T_, only=['history2_ok'] if quick else ['history3_ok'],
                          bounds='template %d, history starting with operation %d, %s, then the override sets (16 in the quick tier); compared with a fresh model' % (
                              t, op1, 'any second operation of 14' if quick else 'any second operation of 14, third operation from %r, override sets %r' % (ops3, sets3)))
        batch.run()
    finally:
        for h in hs:
            h.cleanup()
    return ck.finish()

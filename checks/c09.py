"""C09 - JSON export / import (selectors over constants, sheet names, models and formula trees)."""
import os
from vlib.core import Check, ROOT
from vlib.xh import Harness, Batch


def run(tier, seed):
    ck = Check('C09', tier, seed, level='exploration')
    import formulas.excel as EX, formulas.cell as CE, formulas.tokens.operator as TO, formulas.tokens.function as TF
    ck.encode(EX.ExcelModel.to_dict, EX.ExcelModel.from_dict, CE.Cell.__init__, TO.Operator.set_expr, TF.Function.set_expr)
    ck.assume('text constants (length <= 3 over {= " a 1 blank #}), typed constants, sheet names that need quoting, (A1, A2) values of three model families and operator triples of five formula shapes are boolean selectors; each path exports the real model, passes the dictionary through real JSON text, imports it and exports again (twice)',
              'text cells are created as the workbook reader creates them: Cell(ref, text, check_formula=False)')
    ck.out_of_scope('workbooks loaded from .xlsx files', 'unresolved items inside exported models (C14)', 'symbolic text (the tokenizer is a C regex engine)')
    quick = tier == 'quick'
    src = open(os.path.join(ROOT, 'harness', 'c09_json.py')).read()
    hs, batch = [], Batch()
    T = 170 if quick else 900
    try:
        for t in range(4):
            pools = ('[0, 6, 8, 11]', '[1, 7, 10]') if quick else ('list(range(12))', 'list(range(12))')
            s = src.replace('__T__', str(t)).replace('__BP__', pools[0]).replace('__CP__', pools[1])
            if quick:     # second constant from 3 of the 8 pool values
                s = s.replace('''    post: _
    \"\"\"
    return concrete(_model,''', '''    pre: sel(j0, j1, j2) in (0, 3, 6)
    post: _
    \"\"\"
    return concrete(_model,''')
            h = Harness(ck, 'c09_json_t%d' % t, s); hs.append(h)
            only = ['expr_fixed_point_ok'] + (['model_ok'] if t < 3 else ['text_constant_ok', 'constant_ok'])
            batch.add(h, T, only=only, bounds={
                'expr_fixed_point_ok': 'five formula shapes (chains, sign / percent, IF with an empty argument, array literal, text with doubled quotes) x operator triples (first operator index = %d mod 4, others %s): exported text parses back to itself' % (t, 'from 4 x 3 representatives' if quick else 'all 12 x 12'),
                'model_ok': 'template %d x 8 x %s constants x 8 sheet names (hyphen, blank, apostrophe, leading digit, exclamation mark, second workbook): identical values, identical second and third export' % (t, '3' if quick else '8'),
                'text_constant_ok': 'every text of length <= 3 over {= " a 1 blank #}, and 7 prefixes (error literals, a reference, a logical) followed by <= 1 such character, held as a text cell: values and exports survive two round trips',
                'constant_ok': '16 typed constants (numbers, logicals, text, blank, errors, text looking like other types)'})
        batch.run()
    finally:
        for h in hs:
            h.cleanup()
    return ck.finish()

"""C19 - lookup and criteria functions (Engine A: symbolic keys / indices; selectors for text, tables, criteria)."""
import os
from vlib.core import Check, ROOT
from vlib.xh import Harness, Batch


def run(tier, seed):
    ck = Check('C19', tier, seed)
    import formulas.functions.look as L, formulas.functions as F
    ck.encode(L.xmatch, L.args_parser_match_array, L._index, L.xindex, L.xlookup, L.args_parser_hlookup,
              L.args_parser_lookup_array, L._get_type_id, F._xfilter, F.xfilter)
    ck.assume('MATCH kernel xmatch() on numpy object vectors whose elements are symbolic integers (only the scan order is concrete); INDEX kernel _index() with symbolic row / column',
              'text / wildcard / mixed-type keys, lookup tables and criteria are boolean selectors over pools; those paths run the public registered functions natively',
              'criteria are compared within their own type as the statement says; text pools are lower case (the statement does not fix letter case for criteria)')
    ck.out_of_scope('INDEX with row or column 0 (whole row / column results)', 'multi-area references in INDEX', 'key vectors longer than 5 / tables larger than 3x3',
                    'floating-point keys')
    quick = tier == 'quick'
    src = open(os.path.join(ROOT, 'harness', 'c19_look.py')).read()
    hs, batch = [], Batch()
    T = 170 if quick else 900
    try:
        for ln in ((2, 4) if quick else (1, 2, 3, 4, 5)):
            h = Harness(ck, 'c19_match_len%d' % ln, src.replace('__LEN__', str(ln)).replace('__CRIT__', '0')); hs.append(h)
            batch.add(h, T, only=['match_asc_ok', 'match_desc_ok', 'match_exact_ok'], bounds={
                'match_asc_ok': '%d strictly ascending symbolic integer keys, symbolic lookup value' % ln,
                'match_desc_ok': '%d strictly descending symbolic integer keys, symbolic lookup value' % ln,
                'match_exact_ok': '%d symbolic integer keys in -3..3 (duplicates allowed), symbolic lookup value' % ln})
        h = Harness(ck, 'c19_misc', src.replace('__LEN__', '3').replace('__CRIT__', '0')); hs.append(h)
        batch.add(h, T, only=['index_ok', 'match_text_ok', 'match_text_approx_ok', 'match_types_ok', 'lookup_ok'], bounds={
            'index_ok': 'array shapes 1..3 x 1..3 (selectors), symbolic row / column in -2..5 (0 excluded)',
            'match_text_ok': '12 text keys (case variants, ? * ~ wildcards) against an 11-element mixed-type vector',
            'match_text_approx_ok': 'approximate modes 1 / -1 on 2..5 sorted text keys x 10 lookup texts of mixed letter case',
            'match_types_ok': '6 keys of every type against a 10-element mixed-type vector',
            'lookup_ok': '5 key columns x 12 keys x result column 1..5 x exact/approximate x 3x3 and 2x4 tables: VLOOKUP, HLOOKUP, LOOKUP vs INDEX(MATCH)'})
        for c in range(13):
            h = Harness(ck, 'c19_crit%d' % c, src.replace('__LEN__', '3').replace('__CRIT__', str(c))); hs.append(h)
            batch.add(h, T, only=['criteria_ok'], bounds='criterion #%d, every triple of elements from a 10-entry mixed pool (plus a fixed fourth): COUNTIF, SUMIF, AVERAGEIF' % c)
        batch.run()
    finally:
        for h in hs:
            h.cleanup()
    return ck.finish()

"""C01 - operator grammar (Engine A on the whole parser + z3 rank query)."""
import os
import time
from vlib.core import Check, Obligation, ROOT
from vlib.xh import Harness, Batch

SIGN_RUN_WITNESS = '''\
import sys, warnings; warnings.simplefilter('ignore')
import formulas
got = formulas.Parser().ast('=1+-2^2')[1][-1].get_expr
val = formulas.Parser().ast('=1+-2^2')[1].compile()()
print('=1+-2^2 parsed as', got, 'value', val)
# Excel: 1 + ((-2)^2) = 5
if got != '(1 + (-2 ^ 2))':
    print('REPRODUCED: sign run folded before precedence is resolved'); sys.exit(1)
sys.exit(0)
'''


def rank_query(ck):
    """z3: the live precedence table orders every pair of operators as the
    statement does, and arities match."""
    import z3
    from formulas.tokens.operator import Operator
    from spec.grammar import RANK, ARITY
    t0 = time.time()
    names = sorted(RANK)
    live = Operator._precedences
    idx = {n: i for i, n in enumerate(names)}
    P, R, A = z3.Function('P', z3.IntSort(), z3.IntSort()), z3.Function('R', z3.IntSort(), z3.IntSort()), \
        z3.Function('A', z3.IntSort(), z3.IntSort())
    s = z3.Solver()
    missing = [n for n in names if n not in live]
    for n in names:
        if n in live:
            s.add(P(idx[n]) == live[n])
        s.add(R(idx[n]) == RANK[n], A(idx[n]) == Operator._n_args[n])
    a, b = z3.Ints('a b')
    sg = lambda x: z3.If(x > 0, 1, z3.If(x < 0, -1, 0))
    s.add(a >= 0, a < len(names), b >= 0, b < len(names))
    from spec.grammar import ARITY as AR
    ar = z3.Function('AR', z3.IntSort(), z3.IntSort())
    for n in names:
        s.add(ar(idx[n]) == AR[n])
    s.add(z3.Or(sg(P(a) - P(b)) != sg(R(a) - R(b)), A(a) != ar(a)))
    r = str(s.check())
    dt = time.time() - t0
    bounds = 'all ordered pairs of the %d operator names of the live table' % len(names)
    if missing:
        ck.add(Obligation('rank_table', 'z3', bounds, 'inconclusive', 'names missing from live table: %s' % missing, dt))
    elif r == 'unsat':
        ck.add(Obligation('rank_table', 'z3', bounds, 'discharged', 'unsat', dt, 1, 1,
                          sample='sign(P a - P b) == sign(R a - R b) and arity for all a,b in %s' % names))
    elif r == 'sat':
        m = s.model()
        x, y = names[m[a].as_long()], names[m[b].as_long()]
        src = '''\
import sys
sys.path.insert(0, '/verif')
from formulas.tokens.operator import Operator
from spec.grammar import RANK, ARITY
x, y = %r, %r
P = Operator._precedences
sg = lambda v: (v > 0) - (v < 0)
if sg(P[x] - P[y]) != sg(RANK[x] - RANK[y]) or Operator._n_args[x] != ARITY[x]:
    print('REPRODUCED: operators %%r and %%r are ranked %%d,%%d (statement: %%d,%%d), arity %%d' %% (x, y, P[x], P[y], RANK[x], RANK[y], Operator._n_args[x])); sys.exit(1)
sys.exit(0)
''' % (x, y)
        ck.report_counterexample('rank_table', 'z3', bounds, src, 'operators %r, %r ordered differently from the statement' % (x, y), dt, 1, 1)
    else:
        ck.add(Obligation('rank_table', 'z3', bounds, 'inconclusive', r, dt))


def run(tier, seed):
    ck = Check('C01', tier, seed)
    import formulas.parser as FP, formulas.builder as FB
    import formulas.tokens.operator as TO, formulas.tokens.parenthesis as TP, formulas.tokens.function as TF, \
        formulas.tokens.operand as TD
    ck.encode(FP.Parser.ast, TO.Operator.ast, TO.Operator.update_name, TO.Operator.set_expr, TO.OperatorToken.process,
              TO.Separator.ast, TP.Parenthesis.ast, TP._update_n_args, TF.Function.ast, TF.Function.set_expr,
              TF.Array.ast, TD.Operand.ast, FB.AstBuilder.append, FB.AstBuilder.get_node_id, FB.AstBuilder.finish)
    ck.assume('regular expressions run concretely on the spellings chosen by selector variables (solver-driven concretisation)',
              'oracle = the generated tree and spec/grammar.py (full / spell), ranks from the statement')
    ck.out_of_scope('trees deeper than 3 binary operators / 4 arguments / 3x3 arrays', 'operand values (C02)',
                    'double percent (=1%%) - rejected by the tokenizer, C18 only requires rejection to be clean',
                    'grouping of a run of union commas (not fixed by the statement)')
    quick = tier == 'quick'
    from spec.grammar import BIN_OPS, REPS
    rank_query(ck)
    known = ck.check_known_witness('C01-sign-run', SIGN_RUN_WITNESS)
    src = open(os.path.join(ROOT, 'harness', 'c01_parser.py')).read()
    src = src.replace('__KNOWN_SIGN_RUN__', 'True' if known else 'False')
    hs, batch = [], Batch()
    T = 170 if quick else 1500

    def add(name, ops, fix, only, bounds):
        s = src.replace('__OPS__', repr(ops)).replace('__FIX_A__', repr(fix))
        h = Harness(ck, name, s); hs.append(h)
        batch.add(h, T, only=only, bounds=bounds)
    try:
        for fa in range(12):
            add('c01_pairs_a%d' % fa, BIN_OPS, fa, ['pair_ok'],
                'first operator %r, second any of 12, both groupings, minimal/redundant parentheses, 3 whitespace forms' % BIN_OPS[fa])
        for fa in (range(12) if not quick else [0, 6, 8, 11]):
            add('c01_unary_a%d' % fa, BIN_OPS, fa, ['unary_ok'],
                'operator %r x 8 sign/percent placements x +/- x parentheses x whitespace' % BIN_OPS[fa])
        tri = ['=', '&', '-', '/', '^'] if quick else BIN_OPS
        for fa in range(len(tri)):
            add('c01_triples_a%d' % fa, tri, fa, ['triple_ok'],
                'first operator %r, second and third any of %r, all 5 tree shapes, minimal/redundant parentheses' % (tri[fa], tri))
        add('c01_misc', BIN_OPS, None, ['unary_nest_ok', 'pop_rule_ok'], None)
        s0 = src.replace('__OPS__', repr(BIN_OPS)).replace('__FIX_A__', 'None')
        for rr in (1, 2, 3):
            s2 = s0.replace('pre: 1 <= r <= 3 and 1 <= c <= 3', 'pre: r == %d and 1 <= c <= 3' % rr)
            if quick:
                s2 = s2.replace('0 <= k < 6 and 0 <= ws < 3', 'k in (0, 3) and 0 <= ws < 3')
            h = Harness(ck, 'c01_array_r%d' % rr, s2); hs.append(h)
            batch.add(h, T, only=['array_ok'], bounds='array literal with %d rows x 1..3 columns, cell pool rotation, 3 whitespace forms, bare and as a function argument' % rr)
        for right in (False, True):
            s2 = s0.replace('pre: o1 != 0 or (not right', 'pre: right == %r\n    pre: o1 != 0 or (not right' % right)
            h = Harness(ck, 'c01_refop_%s' % ('right' if right else 'left'), s2); hs.append(h)
            batch.add(h, T, only=['refop_ok'], bounds='reference operators ":" " " "," in pairs over 4 reference spellings, %s-nested' % ('right' if right else 'left'))
        for n in range(4 if quick else 5):
            for a0 in range(7 if n >= 2 else 1):
                s2 = s0.replace('pre: 0 <= n <= 4 and 0 <= ws < 3', 'pre: n == %d and 0 <= ws < 3' % n)
                if n >= 2:
                    s2 = s2.replace('0 <= a0 < NARGS and', 'a0 == %d and' % a0)
                if n >= 3 and quick:
                    s2 = s2.replace('0 <= a2 < NARGS and 0 <= a3 < NARGS', 'a2 in (0, 4, 6) and a3 == 0')
                if n == 4:
                    s2 = s2.replace('0 <= a2 < NARGS and 0 <= a3 < NARGS', 'a2 in (0, 2, 4, 6) and a3 in (0, 5)')
                h = Harness(ck, 'c01_func_n%d_a%d' % (n, a0), s2); hs.append(h)
                batch.add(h, T, only=['func_ok'], bounds='%d arguments from the 7-entry pool (empty, number, sum, string with comma, parenthesised union, signed, percent)%s, nested or not, 3 whitespace forms, letter case' % (n, ', first fixed to entry %d' % a0 if n >= 2 else ''))
        batch.run()
    finally:
        for h in hs:
            h.cleanup()
    return ck.finish()

"""C06 - reference operators follow cell-set semantics (Engine A)."""
import itertools
import os
import random
from vlib.core import Check, ROOT
from vlib.xh import Harness, Batch


def rects(g):
    return [(a1, a2, b1, b2) for a1 in range(1, g + 1) for a2 in range(a1, g + 1)
            for b1 in range(1, g + 1) for b2 in range(b1, g + 1)]


def run(tier, seed):
    ck = Check('C06', tier, seed)
    import formulas.ranges as R
    ck.encode(R._has_same_sheet, R._intersect, R._split, R._merge_raw_update, R._merge_col_update,
              R.Ranges.__and__, R.Ranges.__add__, R.Ranges.__or__, R.Ranges.__sub__,
              R.Ranges.intersect, R.Ranges.simplify, R.Ranges._merge, R._get_indices_intersection,
              R.Ranges.value)
    ck.assume('Ranges.format_range replaced by a function returning its keyword arguments plus a tuple name '
              '(canonical naming is C04)', 'row numbers carried as int (formulas.ranges.str shadowed by identity)',
              'lru_cache wrappers unwrapped', 'Ranges.__repr__ (error-message formatting) stubbed')
    ck.out_of_scope('multi-area operands beyond 3 areas or outside the small grid',
                    'formula-level evaluation through the dispatcher (=SUM(A1:B2 B1:C2)) - only the Ranges operators')
    quick = tier == 'quick'
    hs = []
    batch = Batch()
    try:
        src = open(os.path.join(ROOT, 'harness', 'c06_grid.py')).read()
        h = Harness(ck, 'c06_grid', src); hs.append(h)
        batch.add(h, timeout=150 if quick else 900)

        G = 3
        rnd = random.Random(seed)
        allp = rects(G)
        onecol = [p for p in allp if p[0] == p[1]]
        cols = [(a, b) for a in range(1, G + 1) for b in range(a, G + 1)]
        if quick:
            ps = rnd.sample(allp, 3) + [(1, 3, 1, 3)]
            pcol = rnd.sample(onecol, 2)
            pq = [(rnd.choice(allp), rnd.choice(cols)) for _ in range(4)] + [((1, 3, 1, 3), (2, 2))]
        else:
            ps, pcol = allp, onecol
            pq = [(p, q) for p in allp for q in cols]
            pq3 = set(rnd.sample(pq, 24))
        ck.extra['partition_areas'] = {'grid': G, 'multi': ps, 'one_column': pcol, 'simplify': pq}
        src = open(os.path.join(ROOT, 'harness', 'c06_small.py')).read().replace('__G__', str(G))
        T = 150 if quick else 400
        for p in ps:
            s = src.replace('__P__', repr(p)).replace('__Q__', '(1, 1)')
            h = Harness(ck, 'c06_small_P%d%d%d%d' % p, s); hs.append(h)
            batch.add(h, T, only=['sub_1m2_ok', 'sub_2m1_ok', 'and_multi_ok'],
                      bounds='grid %dx%d, fixed area P=%r, other coordinates and witness cell symbolic' % (G, G, p))
        for p in pcol:
            s = src.replace('__P__', repr(p)).replace('__Q__', '(1, 1)')
            h = Harness(ck, 'c06_small_C%d%d%d%d' % p, s); hs.append(h)
            batch.add(h, T, only=['merge_ok'],
                      bounds='grid %dx%d, fixed strip P=%r, two more strips and witness cell symbolic' % (G, G, p))
        for p, q in pq:
            s = src.replace('__P__', repr(p)).replace('__Q__', repr(q))
            h = Harness(ck, 'c06_small_S%d%d%d%d_%d%d' % (p + q), s); hs.append(h)
            batch.add(h, T, only=['simplify_ok'] + ([] if quick or (p, q) not in pq3 else ['simplify3_ok']),
                      bounds='grid %dx%d, P=%r, second area on columns %r with symbolic rows, witness cell symbolic' % (G, G, p, q))
        # value level, through a real workbook formula and a formula compiled alone (tier S)
        vsrc = open(os.path.join(ROOT, 'harness', 'c06_values.py')).read()
        h = Harness(ck, 'c06_values', vsrc); hs.append(h)
        batch.add(h, T, only=['values_ok'], bounds='two of 12 combined reference expressions (union with repeated / overlapping areas, intersections, empty intersection, absolute spelling) inside ONE formula over a 4x3 grid holding 3**k: SUM+SUM and SUM+COUNT, workbook model and formula compiled alone')
        batch.run()
    finally:
        for h in hs:
            h.cleanup()
    return ck.finish()

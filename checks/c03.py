"""C03 - a calculated workbook is a consistent fixed point (kernels symbolically; workbook level tier S)."""
import os
from vlib.core import Check, ROOT
from vlib.xh import Harness, Batch


def run(tier, seed):
    ck = Check('C03', tier, seed)
    import formulas.ranges as R, formulas.cell as CE, formulas.excel as EX
    ck.encode(R._get_indices_intersection, R._assemble_values, R._intersect, CE.RangesAssembler.__call__, CE.Cell.compile,
              EX.ExcelModel.from_dict, EX.ExcelModel.assemble, EX.ExcelModel.loads, EX.ExcelModel.complete)
    ck.assume('kernels: symbolic rectangles on the full 16384 x 1048576 grid with a symbolic witness cell; _assemble_values runs on a recording grid instead of a numpy array; rows carried as ints',
              'workbook level: template, two constants from the 8-entry value pool and one of 6 insertion orders are boolean selectors; each path builds the real model natively; fixed point = every formula cell equals its own formula (compiled alone) applied to the solved values of the cells it refers to')
    ck.out_of_scope('interpreter hash seeds other than the listed ones (2 in the quick tier, 5 in the thorough tier)', 'workbook files other than the two harness workbooks', 'whole-column references inside workbooks', 'workbooks outside the three template families')
    quick = tier == 'quick'
    hs, batch = [], Batch()
    T = 400 if quick else 900
    try:
        src = open(os.path.join(ROOT, 'harness', 'c03_kernels.py')).read()
        h = Harness(ck, 'c03_kernels', src); hs.append(h)
        batch.add(h, T)
        bsrc = open(os.path.join(ROOT, 'harness', 'c03_books.py')).read()
        # the interpreter's hash seed is an explored parameter too: the same exploration is repeated in
        # processes started under different PYTHONHASHSEED values (the fixed point of an acyclic
        # workbook is unique, so "fixed point under every seed" implies "same result under every seed")
        hashseeds = [0, 1] if quick else [0, 1, 2, 3, 1 + seed % 4000000000]
        for t in range(3):
            for hsd in hashseeds:
                for order in ([None] if quick else range(6)):
                    s = '# PYTHONHASHSEED = %d\n' % hsd + bsrc.replace('__T__', str(t))
                    if not quick:
                        s = s.replace('pre: sel(o0, o1, o2) < 6', 'pre: sel(o0, o1, o2) == %d' % order)
                    h = Harness(ck, 'c03_books_t%d_hs%d%s' % (t, hsd, '' if quick else '_o%d' % order), s); hs.append(h)
                    batch.add(h, T, only=['fixed_point_ok'], bounds='template %d x %s constants x %s, PYTHONHASHSEED=%d: order independence, fixed point, constants kept' % (
                        t, '8 x 8', '6 insertion orders' if quick else 'insertion order #%d' % order, hsd))
        # the loading path: real .xlsx files (book1 alone with its linked book loaded on demand, both files in
        # either order, book2 alone) against the equivalent dictionary
        fsrc = open(os.path.join(ROOT, 'harness', 'c03_files.py')).read()
        for i in range(8):
            h = Harness(ck, 'c03_files_i%d' % i, fsrc.replace('__I__', str(i))); hs.append(h)
            batch.add(h, T, only=['files_ok'], bounds='two real workbooks (harness/books.py), DATA!A1 = value #%d, DATA!A2 any of 8 values: 4 file loading paths vs the dictionary path, fixed point of the dictionary model' % i)
        batch.run()
    finally:
        for h in hs:
            h.cleanup()
    return ck.finish()

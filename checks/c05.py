"""C05 - array lifting and fitting (shapes and element pools are selectors; numpy does the broadcasting)."""
import os
from vlib.core import Check, ROOT
from vlib.xh import Harness, Batch

WITNESS = '''\
import sys, warnings; warnings.simplefilter('ignore')
import numpy as np
from formulas.ranges import Ranges
v = Ranges().push('A1:A4', np.asarray([[1, 2, 3, 4]], object)).value.tolist()
print('1x4 value stored into A1:A4 ->', v)
if v == [[1], [2], [3], [4]]:
    print('REPRODUCED: a row vector stored into a column range is transposed instead of repeating its first element'); sys.exit(1)
sys.exit(0)
'''


def run(tier, seed):
    ck = Check('C05', tier, seed, level='exploration')
    import formulas.functions as F, formulas.ranges as R, formulas.cell as CE
    ck.encode(F.wrap_ufunc, F.get_shape, F._init_reshape, F.Array.reshape, F.Array.collapse, R._reshape_array_as_excel,
              R.Ranges.set_value, R._shape, CE.format_output)
    ck.assume('source / destination shapes (1..4 x 1..4), operand shapes, element-pool offsets, operator and argument count are boolean selectors; every explored path runs the real code natively (numpy performs the broadcasting)',
              'lifting oracle = the same registered function called on the corresponding scalar elements (differential between the vectorised path and the scalar path, both real code)')
    ck.out_of_scope('shapes larger than 4x4', 'functions other than the 10 lifted operators / functions, the 12 one-argument functions and CONCATENATE', 'symbolic element values')
    known = ck.check_known_witness('C05-vector-transposed', WITNESS)
    quick = tier == 'quick'
    src = open(os.path.join(ROOT, 'harness', 'c05_arrays.py')).read().replace('__KNOWN_TRANSPOSE__', 'True' if known else 'False')
    hs, batch = [], Batch()
    T = 170 if quick else 900
    try:
        s0 = src.replace('__OP__', '0')
        if quick:
            s0 = s0.replace('pre: sel(k0, k1, k2, k3) < len(POOLV) and sel(f0, f1, f2, f3) < len(UNARY)', 'pre: sel(k0, k1, k2, k3) in (0, 4, 7, 10) and sel(f0, f1, f2, f3) < len(UNARY)')
        h = Harness(ck, 'c05_fit', s0); hs.append(h)
        batch.add(h, T, only=['fit_ok', 'many_args_ok', 'unary_ok'], bounds={
            'unary_ok': '12 element-wise functions of one argument (IS... family, NOT, ABS, LEN, ISNUMBER over a double TRANSPOSE) on 8 shapes x %s element-pool offsets x 4 memory layouts (C order, Fortran order, transposed view, strided slice)' % ('4' if quick else '12'),
            'fit_ok': 'every source shape 1..4 x 1..4 into every destination 1..4 x 1..4, stored through Ranges.push (plain and Array values) and as a formula result of a Cell',
            'many_args_ok': 'CONCATENATE with 9..64 arguments (both sides of the 32-argument limit), two array arguments of 8 x 8 shape combinations at 4 positions'})
        for op in range(10):
            s2 = src.replace('__OP__', str(op))
            if quick:
                s2 = s2.replace('pre: sel(k0, k1, k2, k3) < len(POOLV) and sel(m0, m1, m2, m3) < len(POOLV)',
                                'pre: sel(k0, k1, k2, k3) in (0, 4, 7, 10) and sel(m0, m1, m2, m3) in (1, 6, 8, 11)')
            h = Harness(ck, 'c05_lift_%d' % op, s2); hs.append(h)
            batch.add(h, T, only=['lift_ok'], bounds='operator / function #%d on 8 x 8 operand shapes (scalar, 1x1, 1xn, mx1, mxn) x %s element-pool offsets: position by position the scalar result' % (op, '4 x 4' if quick else '12 x 12'))
        batch.run()
    finally:
        for h in hs:
            h.cleanup()
    return ck.finish()

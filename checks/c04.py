"""C04 - reference spellings and canonical identifiers (Engines A + C)."""
import os
import random
from vlib.core import Check, ROOT
from vlib.xh import Harness, Batch

MAXR = 1048576


def public_replay_names(fname, argtext, r1, r2):
    """Replay through Ranges().push on the real code: the rectangle's A1 spelling
    must be named as the statement says, and must not share its name with a
    different rectangle's spelling."""
    return '''\
import sys, warnings; warnings.simplefilter('ignore')
from formulas.ranges import Ranges
from formulas.tokens.operand import _index2col, _col2index, maxcol, maxrow
sys.path.insert(0, '/verif')
def _cap(*a, **k): return a
args = _cap(%(args)s)
fname = %(fname)r
R1, R2 = %(r1)d, %(r2)d
def col(n):
    s = ''
    while n > 0:
        n, rem = divmod(n - 1, 26); s = chr(65 + rem) + s
    return s
if fname.startswith('name_v2'):
    L, k1, k2, k3 = args[:4]
    n1 = [k1 + 1, (k1 + 1) * 26 + k2 + 1, (k1 + 1) * 676 + (k2 + 1) * 26 + k3 + 1][L - 1]
    n2 = maxcol if 'wide' in fname else n1
elif fname.startswith('name_v1'):
    n1 = n2 = args[0]
elif fname.startswith('name_whole_rows'):
    n1, n2 = 0, maxcol
elif fname.startswith('col_'):
    n = args[0]
    if fname == 'col_roundtrip_str_ok':
        L, k1, k2, k3, l1, l2, l3 = args
        n = (chr((97 if l1 else 65) + k1) + chr((97 if l2 else 65) + k2) + chr((97 if l3 else 65) + k3))[:L]
        bad = _index2col(_col2index(n)) != n.upper()
    else:
        bad = _col2index(_index2col(n)) != n
    print('REPRODUCED: column round trip fails for %%r' %% (n,) if bad else 'not reproduced'); sys.exit(1 if bad else 0)
else:
    n1, n2 = args[:2]
def text(n1, r1, n2, r2):
    a = col(n1) + (str(r1) if r1 else ''); b = col(n2) + (str(r2) if not (r1 == 0 and r2 == maxrow) else '')
    if n1 == 0: a, b = str(r1), str(r2)
    return a + ':' + b
t = text(n1, R1, n2, R2)
if fname.startswith('name_v2'):      # same letter-case spelling as the counterexample
    low = args[4]
    a, b = t.split(':')
    t = (a.lower() if low else a) + ':' + (b.lower() if ('wide' in fname or not low) else b)
rng = Ranges().push(t).ranges[0]
got = (rng['n1'], int(rng['r1']), rng['n2'], int(rng['r2']))
# the same name must denote the same rectangle when read back
try:
    back = Ranges().push(rng['name']).ranges[0]
except Exception as e:
    print('REPRODUCED: %%s is named %%r which cannot be read back (%%r)' %% (t, rng['name'], e)); sys.exit(1)
gb = (back['n1'], int(back['r1']), back['n2'], int(back['r2']))
print(t, '->', rng['name'], got, 'read back', gb)
canon = Ranges().push(text(n1, R1, n2, R2)).ranges[0]['name']
if canon != rng['name']:
    print('REPRODUCED: spellings %%s and %%s of one rectangle are named %%r and %%r' %% (t, text(n1, R1, n2, R2), rng['name'], canon)); sys.exit(1)
if gb != got or back['name'] != rng['name']:
    print('REPRODUCED: %%s is named %%r which reads back as rectangle %%r (name %%r), not %%r' %% (t, rng['name'], gb, back['name'], got)); sys.exit(1)
print('not reproduced'); sys.exit(0)
''' % dict(args=argtext, fname=fname, r1=r1, r2=r2)


def run(tier, seed):
    ck = Check('C04', tier, seed)
    import formulas.tokens.operand as O
    ck.encode(O._index2col, O._col2index, O._build_cel, O._build_ref, O._build_id, O._build_sheet_id,
              O.fast_range2parts, O.fast_range2parts_v1, O.fast_range2parts_v2, O.fast_range2parts_v3,
              O.fast_range2parts_v4, O.fast_range2parts_v5, O.range2parts, O._range2parts)
    from formulas.ranges import Ranges
    ck.encode(Ranges.get_range)
    ck.assume('the regex delivers c1,r1,c2,r2,n1,... as the substrings written in the text ($ markers, capture semantics of _re_range outside; C18/C01 run the regex on concrete spellings)',
              'rows are concrete boundary-pool values per generated condition (columns symbolic)',
              'injectivity is decided as equality with the statement\'s canonical text spec_ref(), which is injective by construction (unique decomposition [A-Z]*[0-9]*(:[A-Z]*[0-9]*)?, bijective column letters shown by col_roundtrip_*, decimal rendering trusted)')
    quick = tier == 'quick'
    rnd = random.Random(seed)
    rr = rnd.randint(3, MAXR - 2)
    pool = [1, 2, rr, MAXR - 1, MAXR]
    pairs = [(a, b) for a in pool for b in pool if a <= b] + [(0, MAXR)]
    if quick:
        keep = {(1, 1), (1, 2), (2, rr), (1, MAXR), (MAXR, MAXR), (MAXR - 1, MAXR), (0, MAXR), (rr, rr)}
        pairs = [p for p in pairs if p in keep]
    ck.extra['row_pool'] = pool
    hs, batch = [], Batch()
    src = open(os.path.join(ROOT, 'harness', 'c04_names.py')).read()
    T = 120 if quick else 600
    try:
        first = True
        for (r1, r2) in pairs:
            s = src.replace('__R1__', str(r1)).replace('__R2__', str(r2)).replace('__KNOWN_EDGE__', 'False')
            h = Harness(ck, 'c04_names_%d_%d' % (r1, r2), s); hs.append(h)
            only = ['name_v4_ok', 'name_v4_str_rows_ok', 'name_v2_ok', 'name_v2_wide_ok']
            if r1 == r2 and r1:
                only.append('name_v1_v3_ok')
            if r1:
                only.append('name_whole_rows_ok')
            if first:
                only += ['col_roundtrip_ok', 'col_roundtrip_str_ok', 'col_zero_ok']
                first = False
            batch.add(h, T, only=only,
                      bounds='columns symbolic over 1..16384 / [A-Za-z]{1,3}; rows (%d, %d)' % (r1, r2),
                      public_replay=lambda f, a, r1=r1, r2=r2: public_replay_names(f, a, r1, r2))
        isrc = open(os.path.join(ROOT, 'harness', 'c04_ids.py')).read()
        for first in range(8):
            h = Harness(ck, 'c04_ids_f%d' % first, isrc.replace('__FIRST__', str(first)).replace('__HOST__', '0').replace('__DRDC__', '(False, False)')); hs.append(h)
            batch.add(h, T, only=['sheet_id_ok'],
                      bounds="sheet names of length 1..3 over {a B 1 blank ' - . !} starting with %r, bare / in a named book / in a numbered book (boolean selectors)" % "aB1 '-.!"[first])
        hosts = [0, 1] if quick else [0, 1, 2, 3]
        for host in hosts:
            for drdc in ((False, False), (True, False), (False, True), (True, True)):
                h = Harness(ck, 'c04_rel_h%d_%d%d' % (host, drdc[0], drdc[1]),
                            isrc.replace('__FIRST__', '0').replace('__HOST__', str(host)).replace('__DRDC__', repr(drdc))); hs.append(h)
                batch.add(h, T, only=['relative_ok'],
                          bounds='R[..]C[..] offsets in {-1,1,2}^2 from host cell #%d, second corner +%d rows +%d columns (boolean selectors)' % (host, drdc[0], 2 * drdc[1]))
        tsrc = open(os.path.join(ROOT, 'harness', 'c04_tokens.py')).read()
        for dm in ((0, 15) if quick else (0, 5, 10, 15, 3, 12)):
            h = Harness(ck, 'c04_tokens_d%d' % dm, tsrc.replace('__D__', str(dm))); hs.append(h)
            batch.add(h, 300 if quick else 900, only=['token_ok'], bounds='A1 range texts with both corners over 8 boundary columns (A ... XFD) x 8 boundary rows (1 ... 1048576), $ markers mask %d, either letter case: ONE reference token naming exactly that rectangle (real tokenizer)' % dm)
        batch.run()
    finally:
        for h in hs:
            h.cleanup()
    return ck.finish()

"""C11 - worksheet functions are total and never lose an error (tier S over the whole function table)."""
import os
from vlib.core import Check, ROOT
from vlib.xh import Harness, Batch


INF_WITNESS = '''\
import sys, math, warnings; warnings.simplefilter('ignore')
import numpy as np
import formulas
v = np.ravel(np.asarray(formulas.Parser().ast('=SUM(1E+308,1E+308)')[1].compile()(), object))[0]
print('SUM(1E+308,1E+308) =', v)
if isinstance(v, float) and math.isinf(v):
    print('REPRODUCED: an aggregation overflows to inf instead of #NUM!'); sys.exit(1)
sys.exit(0)
'''


def run(tier, seed):
    ck = Check('C11', tier, seed, level='exploration')
    import formulas.functions as F
    ck.encode(F.wrap_func, F.wrap_ufunc, F.wrap_ranges_func, F.get_error, F.raise_errors, F.convert_nan, F.get_functions)
    names = sorted(k for k in F.get_functions() if isinstance(k, str))
    ck.assume('function name, argument count and argument values are boolean selectors; every explored path calls the public registered callable natively',
              'admissible argument counts = the required positional parameters of the implementation, plus one and two more for variadic functions and for the optional arguments Excel documents (table OPTIONAL in harness/c11_total.py), at most 5',
              'error propagation is demanded of every function except the documented error-handling / inspection / selection functions listed in harness/c11_total.py:exempt()')
    ck.out_of_scope('optional arguments beyond the second', 'argument tuples outside the pools (12 values for <= 2 arguments, 8 for 3, 4 for 4-5; no number above 1E+154: see known finding C11-overflow-to-infinity)', 'functions evaluated through formulas / ranges of a workbook')
    known_inf = ck.check_known_witness('C11-overflow-to-infinity', INF_WITNESS)
    quick = tier == 'quick'
    src = open(os.path.join(ROOT, 'harness', 'c11_total.py')).read()
    groups = [names[i:i + 8] for i in range(0, len(names), 8)]
    ck.extra['functions_in_table'] = len(names)
    hs, batch = [], Batch()
    T = 170 if quick else 900
    try:
        for gi, g in enumerate(groups):
            h = Harness(ck, 'c11_g%02d' % gi, src.replace('__GROUP__', repr(g)).replace('__KNOWN_INF__', 'True' if known_inf else 'False')); hs.append(h)
            only = ['total0_ok', 'total1_ok', 'total2_ok', 'error_kept_ok', 'many_error_kept_ok'] + (['total3_ok'] if not quick or gi % 4 == seed % 4 else []) + \
                ([] if quick else ['total4_ok'])
            batch.add(h, T, only=only, bounds='functions %s ... %s' % (g[0], g[-1]))
        batch.run()
    finally:
        for h in hs:
            h.cleanup()
    return ck.finish()

"""C15 - a model loaded from chosen outputs equals the full model on them (tier S over real .xlsx files)."""
import os
from vlib.core import Check, ROOT
from vlib.xh import Harness, Batch


NAME_WITNESS = '''\
import sys, os, tempfile, warnings, logging; warnings.simplefilter('ignore'); logging.disable(logging.CRITICAL)
import openpyxl
from openpyxl.workbook.defined_name import DefinedName
import formulas
os.chdir(tempfile.mkdtemp())
wb = openpyxl.Workbook(); ws = wb.active; ws.title = 'S'; ws['A1'] = 3; ws['A2'] = '=A1*2'
wb.defined_names['TOTAL'] = DefinedName('TOTAL', attr_text='S!$A$2')
wb.save('b.xlsx')
k = "'[b.xlsx]'!TOTAL"
full = formulas.ExcelModel().loads('b.xlsx').finish().calculate()[k]
part = formulas.ExcelModel().from_ranges(k).finish().calculate()[k]
f = lambda v: str(getattr(v, 'value', v))
print('TOTAL fully loaded:', f(full), '; requested through from_ranges:', f(part))
if f(full) != f(part):
    print('REPRODUCED: a defined name requested as an output is not loaded'); sys.exit(1)
sys.exit(0)
'''


def run(tier, seed):
    ck = Check('C15', tier, seed, level='exploration')
    import formulas.excel as EX
    ck.encode(EX.ExcelModel.from_ranges, EX.ExcelModel.complete, EX.ExcelModel.add_sheet, EX.ExcelModel.add_cell,
              EX.ExcelModel.compile_cell, EX.ExcelModel.finish)
    ck.assume('the workbook is a real .xlsx file written by the harness with openpyxl (two sheets referring to each other, whole-column and whole-row references, a defined name, a two-cell array formula, cells reading its spilled cell alone or inside a larger rectangle, and a second workbook whose sheet has the same title but fewer used rows); two constants and the set of requested outputs are boolean selectors; every path loads the file twice (fully, and from the chosen outputs) and calculates natively',
              'completing and finishing the partial model again must leave its node set and its results unchanged')
    ck.out_of_scope('output sets other than the listed ones (20 single outputs, 15 chosen combinations, and in the thorough tier a seeded sample up to 64 sets)', 'whole-column references beyond the few listed paths (the library assembles all 1048576 cells of the column: 10 s and several GB per model)', 'workbooks other than the harness template',
                    'symbolic contents (openpyxl / schedula cannot carry symbolic values)')
    ck.check_known_witness('C15-defined-name-as-requested-output', NAME_WITNESS)
    quick = tier == 'quick'
    src = open(os.path.join(ROOT, 'harness', 'c15_ranges.py')).read()
    nout = 20
    ORDER = 1 << nout                      # bit 15: the request is made in reverse order
    masks = [1 << b for b in range(nout)]
    masks += [3, 96, 640, 1025, 45, (1 << nout) - 1, ((1 << nout) - 1) | ORDER, (3 << 13) | 2 | ORDER, (3 << 13) | 2,
              (1 << 12) | (1 << 10), (1 << 11) | 16 | ORDER, (1 << 16) | (1 << 17) | ORDER, (1 << 15) | (1 << 16), (1 << 18) | 1, (1 << 19) | 8 | ORDER]
    if not quick:
        import random
        rnd = random.Random(seed)
        while len(masks) < 64:
            m = rnd.getrandbits(nout + 1)
            if m & (ORDER - 1) and m not in masks:
                masks.append(m)
    groups = 4
    both = 2 | (1 << 13)
    colmasks = ((both, both | ORDER) if quick else (2, 1 << 13, both, both | ORDER)) + (() if quick else ((1 << nout) - 1, ((1 << nout) - 1) | ORDER, 2 | 1 << 9, both | 64))
    hs, batch = [], Batch()
    try:
        for a in ((0, 4) if quick else (0, 1, 4, 6)):
            for g in range(groups):
                mg = tuple(masks[g::groups])
                s = src.replace('__FIX_A__', str(a)).replace('__MASKS__', repr(mg)).replace('__WHOLE__', 'row')
                h = Harness(ck, 'c15_ranges_a%d_g%d' % (a, g), s); hs.append(h)
                batch.add(h, 600 if quick else 3000, only=['ranges_ok'], ppt=200,
                          bounds='whole-ROW references; DATA!A1 = pool value #%d, DATA!A2 any of 8 pool values, %d of the %d listed output sets (of 20 formula outputs in two workbooks, either request order)' % (
                              a, len(mg), len(masks)))
        # whole-COLUMN references assemble a million cells per model (10 s and 2-5 GB a path): few paths
        for a in ((0,) if quick else (0, 4)):
            step = 1 if quick else 2
            for g in range(0, len(colmasks), step):
                cm = colmasks[g:g + step]
                s = src.replace('__FIX_A__', str(a)).replace('__MASKS__', repr(cm)).replace('__WHOLE__', 'col')
                s = s.replace('< len(MASKS)', '< len(MASKS) and sel(j0, j1, j2) %s' % ('== 1' if quick else 'in (1, 4)'))
                h = Harness(ck, 'c15_ranges_col_a%d_g%d' % (a, g // step), s); hs.append(h)
                batch.add(h, 600 if quick else 3000, only=['ranges_ok'], ppt=300, twin_timeout=600,
                          bounds='whole-COLUMN references; DATA!A1 = pool value #%d, DATA!A2 from %d pool value(s), output sets %r around the whole-column cells of the two workbooks' % (
                              a, 1 if quick else 2, cm))
        batch.run()
    finally:
        for h in hs:
            h.cleanup()
    return ck.finish()

"""C15 - a model loaded from chosen outputs equals the full model on them (tier S over real .xlsx files)."""
import os
from vlib.core import Check, ROOT
from vlib.xh import Harness, Batch


def run(tier, seed):
    ck = Check('C15', tier, seed, level='exploration')
    import formulas.excel as EX
    ck.encode(EX.ExcelModel.from_ranges, EX.ExcelModel.complete, EX.ExcelModel.add_sheet, EX.ExcelModel.add_cell,
              EX.ExcelModel.compile_cell, EX.ExcelModel.finish)
    ck.assume('the workbook is a real .xlsx file written by the harness with openpyxl (two sheets referring to each other, whole-column and whole-row references, a defined name, a two-cell array formula and cells reading its spilled cell); two constants and the set of requested outputs are boolean selectors; every path loads the file twice (fully, and from the chosen outputs) and calculates natively',
              'completing and finishing the partial model again must leave its node set and its results unchanged')
    ck.out_of_scope('references between workbooks (external-link parts of the file format are not produced by the harness)', 'workbooks other than the harness template',
                    'symbolic contents (openpyxl / schedula cannot carry symbolic values)')
    quick = tier == 'quick'
    src = open(os.path.join(ROOT, 'harness', 'c15_ranges.py')).read()
    masks = [1, 2, 4, 8, 16, 32, 64, 128, 256, 512, 1024, 3, 96, 640, 1025, 45, 2047]
    hs, batch = [], Batch()
    try:
        for a in ((0, 4) if quick else range(8)):
            s = src.replace('__FIX_A__', str(a)).replace('__MASKS__', repr(tuple(masks[:12] if quick else masks)) if quick else
                                                        ('None' if a in (0, 4) else repr(tuple(masks))))
            if quick:
                s = s.replace('pre: sel(m0, m1, m2, m3, m4, m5, m6, m7, m8, m9, m10) > 0', 'pre: sel(m0, m1, m2, m3, m4, m5, m6, m7, m8, m9, m10) > 0 and sel(j0, j1, j2) in (1, 4)')
            h = Harness(ck, 'c15_ranges_a%d' % a, s); hs.append(h)
            batch.add(h, 900 if quick else 5000, only=['ranges_ok'], ppt=300,
                      bounds='DATA!A1 = pool value #%d, DATA!A2 from %s, %s of the 11 formula outputs' % (
                          a, '2 pool values' if quick else 'all 8 pool values',
                          '12 output sets' if quick else ('all 2047 output sets' if a in (0, 4) else '17 output sets')))
        batch.run()
    finally:
        for h in hs:
            h.cleanup()
    return ck.finish()

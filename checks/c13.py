"""C13 - volatile functions (kernel symbolically; workbook level tier S with a harness clock / random source)."""
import os
from vlib.core import Check, ROOT
from vlib.symrun import run_tasks
from vlib.xh import Harness, Batch

REPLAY_RB = '''\
import sys, warnings; warnings.simplefilter('ignore')
import numpy as np, formulas
import formulas.functions.math as M
cex = %r
u, b, t = cex['u'], cex['b'], cex['t']
np.random.rand = lambda *a: u
r = M.xrandbetween(b, t)
print('RANDBETWEEN(%%r, %%r) with rand() = %%r ->' %% (b, t, u), r)
import math
if math.floor(t) < math.ceil(b):
    bad = str(r) != '#NUM!'
else:
    bad = isinstance(r, str) or not (float(r).is_integer() and b <= r <= t)
if bad:
    print('REPRODUCED: RANDBETWEEN(%%r, %%r) returned %%r for rand() = %%r' %% (b, t, r, u)); sys.exit(1)
sys.exit(0)
'''


def run(tier, seed):
    ck = Check('C13', tier, seed)
    import formulas.functions as F, formulas.functions.math as M, formulas.functions.date as D, formulas.builder as FB, \
        formulas.excel as EX
    ck.encode(F.wrap_impure_func, M.xrandbetween, D.xnow, D.xtoday, FB.AstBuilder.compile, EX.ExcelModel.compile)
    ck.assume('numpy.random.rand replaced by a stub returning an arbitrary double u in [0, 1) (its documented contract); the clock of formulas.functions.date replaced by a harness clock that advances between calls',
              'workbook level: formula shape (16, volatile call at several depths and argument positions), way of obtaining the executable (7) and number of calls are boolean selectors; each path runs the real model natively')
    ck.out_of_scope('workbooks loaded from files', 'formulas outside the 16-entry pool', 'RAND itself is numpy (its range [0,1) is numpy\'s contract)')
    quick = tier == 'quick'
    import threading
    T = [dict(name='randbetween_integer_in_bounds', module='c13_sym', func='randbetween', args={'bits': 20 if quick else 30}, timeout=1500,
              engine='symtrace z3+cvc5 QF_BVFP', bounds='every pair of integer bounds |b|,|t| < 2^%d and every double u in [0,1)' % (20 if quick else 30),
              replay=lambda cex: REPLAY_RB % cex)]
    T.append(dict(name='randbetween_fractional_bounds', module='c13_sym', func='randbetween_halves', args={'bits': 10 if quick else 14}, timeout=1500,
                  engine='symtrace z3+cvc5 QF_BVFP', bounds='bounds = every pair of multiples of 1/2 below 2^%d, every double u in [0,1)' % (9 if quick else 13),
                  replay=lambda cex: REPLAY_RB % dict(cex, b=cex['b'] / 2, t=cex['t'] / 2)))
    th = threading.Thread(target=run_tasks, args=(ck, T))
    th.start()
    src = open(os.path.join(ROOT, 'harness', 'c13_volatile.py')).read()
    hs, batch = [], Batch()
    try:
        h = Harness(ck, 'c13_volatile', src); hs.append(h)
        batch.add(h, 170 if quick else 900, bounds={
            'impure_wrapper_ok': 'symbolic compiling flag and integer arguments',
            'volatile_ok': '16 formulas x 7 ways of obtaining the executable (loaded, compiled, copied, re-imported from JSON, single formula, overridden volatile cell, recalculated with an unrelated override) x 2..3 successive calls'})
        batch.run()
        th.join()
    finally:
        for h in hs:
            h.cleanup()
    return ck.finish()

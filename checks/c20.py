"""C20 - calendar and number-system conversions (Engine B; Engine A for ROMAN/ARABIC)."""
import os
import random
from vlib.core import Check, ROOT
from vlib.symrun import run_tasks
from vlib.xh import Harness, Batch

REPLAY_DATE = '''\
import sys, warnings; warnings.simplefilter('ignore')
import formulas
F = formulas.get_functions()
kind, cex = %r, %r
def scal(v):
    import numpy as np
    v = np.ravel(v)[0] if isinstance(v, np.ndarray) else v
    return v if isinstance(v, (int, float)) and not isinstance(v, bool) else str(v)
def excel_ymd(n):
    import datetime
    if n == 0: return (1900, 1, 0)
    if n == 60: return (1900, 2, 29)
    d = datetime.date(1899, 12, 31) + datetime.timedelta(days=n if n < 60 else n - 1)
    return (d.year, d.month, d.day)
def excel_serial_first(y, m):
    import datetime
    s = (datetime.date(y, m, 1) - datetime.date(1899, 12, 31)).days
    return s + (1 if (y, m) >= (1900, 3) else 0)
bad = None
if kind == 'serial':
    n = cex['n']
    if 0 <= n <= 2958465:
        got = tuple(scal(F[k](n)) for k in ('YEAR', 'MONTH', 'DAY'))
        back = scal(F['DATE'](*got)) if all(isinstance(v, (int, float)) for v in got) else None
        if got != excel_ymd(n) or back != n:
            bad = 'serial %%d -> %%r (Excel %%r) -> DATE %%r' %% (n, got, excel_ymd(n), back)
    else:
        got = F['YEAR'](n)
        if str(got) != '#NUM!':
            bad = 'YEAR(%%d) = %%r, expected #NUM!' %% (n, got)
elif kind == 'norm':
    y, m, d = cex['y'], cex['m'], cex['d']
    tot = y * 12 + (m - 1); yy, mm = divmod(tot, 12); mm += 1
    want = excel_serial_first(yy, mm) + d - 1 if 1 <= yy <= 9999 else None
    got = scal(F['DATE'](y, m, d))
    if want is None or not (0 <= want <= 2958465):
        if str(got) != '#NUM!': bad = 'DATE%%r = %%r, expected #NUM!' %% ((y, m, d), got)
    elif got != want:
        bad = 'DATE%%r = %%r, Excel calendar arithmetic gives %%d' %% ((y, m, d), got, want)
elif kind == 'weekday':
    n, mode = cex['n'], cex.get('mode', cex.get('k', 1))
    a, b = scal(F['WEEKDAY'](n, mode)), scal(F['WEEKDAY'](n + 1, mode))
    lo, hi = (0, 6) if mode == 3 else (1, 7)
    valid_mode = mode in (1, 2, 3) or 11 <= mode <= 17
    if not valid_mode or not (0 <= n <= 2958465):
        if str(a) != '#NUM!': bad = 'WEEKDAY(%%d,%%d) = %%r, expected #NUM!' %% (n, mode, a)
    elif isinstance(a, str) or not (lo <= a <= hi) or (n < 2958465 and b != (lo if a == hi else a + 1)):
        bad = 'WEEKDAY(%%d..%%d, %%d) = %%r, %%r' %% (n, n + 1, mode, a, b)
elif kind == 'time':
    h, m, s = cex['h'], cex['m'], cex['s']
    t = F['TIME'](h, m, s)
    got = tuple(scal(F[k](t)) for k in ('HOUR', 'MINUTE', 'SECOND'))
    if got != (h, m, s):
        bad = 'TIME(%%d,%%d,%%d) reads back as %%r' %% (h, m, s, got)
if bad:
    print('REPRODUCED:', bad); sys.exit(1)
print('not reproduced'); sys.exit(0)
'''

REPLAY_BASE = '''\
import sys, warnings; warnings.simplefilter('ignore')
import formulas
F = formulas.get_functions()
kind, base, cex = %r, %r, %r
name = {2: 'BIN', 8: 'OCT', 16: 'HEX'}[base]
k = {2: 9, 8: 29, 16: 39}[base]
fmt = {2: 'b', 8: 'o', 16: 'X'}[base]
bad = None
if kind == 'rt':
    n = cex['n']
    x = F['DEC2' + name](n)
    if -(1 << k) <= n < (1 << k):
        want = format(n if n >= 0 else n + (1 << (k + 1)), fmt)
        back = F[name + '2DEC'](x)
        if str(x) != want or back != n:
            bad = 'DEC2%%s(%%d) = %%r (want %%r), back %%r' %% (name, n, x, want, back)
    elif str(x) != '#NUM!':
        bad = 'DEC2%%s(%%d) = %%r, expected #NUM!' %% (name, n, x)
elif kind == 'inv':
    u = cex['u']
    text = format(u, fmt).zfill(10) if u >= (1 << k) else format(u, fmt)
    d = F[name + '2DEC'](text)
    want = u - (1 << (k + 1)) if u >= (1 << k) else u
    back = F['DEC2' + name](d)
    if d != want or str(back) != format(u, fmt):
        bad = '%%s2DEC(%%r) = %%r (want %%d), back %%r' %% (name, text, d, want, back)
elif kind == 'places':
    n, p = cex['n'], cex['p']
    x = F['DEC2' + name](n, p)
    digits = format(n, fmt)
    want = digits.zfill(p) if p >= len(digits) else '#NUM!'
    if str(x) != want:
        bad = 'DEC2%%s(%%d, %%d) = %%r, want %%r' %% (name, n, p, x, want)
if bad:
    print('REPRODUCED:', bad); sys.exit(1)
print('not reproduced'); sys.exit(0)
'''

FEB1900_WITNESS = '''\
import sys, warnings; warnings.simplefilter('ignore')
import formulas
v = formulas.get_functions()['DATE'](1900, 1, 61)
print('DATE(1900,1,61) =', v, '(Excel: 61, 1 March 1900)')
if int(v) != 61:
    print('REPRODUCED: day roll-over across the fictitious 29 Feb 1900 is off by one'); sys.exit(1)
sys.exit(0)
'''


def run(tier, seed):
    ck = Check('C20', tier, seed)
    import formulas.functions.date as D, formulas.functions.eng as E, formulas.functions.math as M
    ck.encode(D._date, D.xdate, D._int2date, D.xweekday, D.xtime, D._n2time, E._x2dec, E._dec2x, E._parseDEC,
              M.xroman, M._xroman, M.xarabic)
    ck.assume('datetime/calendar replaced inside formulas.functions.date by an ordinal-arithmetic shim (validated against the real modules on seeded dates; injectivity of the ordinal proved)',
              'floor(fl(a/12)) == a // 12 for |a| < 2^31 used as a cut, discharged as QF_BVFP lemma',
              'bin/oct/hex and int(.,base) replaced by an abstract numeral (value, base, width): Python builtins trusted to be mutually inverse',
              'float->int conversions modelled for finite |x| < 2^62 (guard proved with each post-condition)',
              'lru_cache wrappers unwrapped; module-level int/float shadowed by proxy-aware versions')
    ck.out_of_scope('the six cross conversions (HEX2BIN ...) - they run through a schedula pipe', 'WEEKNUM/ISOWEEKNUM',
                    'negative numbers with a places argument', 'ROMAN forms beyond the selector bound in the quick tier')
    quick = tier == 'quick'
    from vlib import dateshim
    n = dateshim.validate(3000 if quick else 10000, seed)
    ck.validation.append({'what': 'date shim vs real datetime/calendar', 'cases': n})
    known = ck.check_known_witness('C20-date-rollover-feb1900', FEB1900_WITNESS)
    rnd = random.Random(seed)
    M_ = 'c20_sym'
    T = []
    rd = lambda kind: (lambda cex: REPLAY_DATE % (kind, cex))
    T.append(dict(name='shim_injective', module=M_, func='shim_injective', bounds='all valid dates years 1..9999', timeout=400))
    T.append(dict(name='lemma_floor_div_12', module=M_, func='lemma_floor_div', args={'k': 12}, bounds='all 32-bit a', timeout=700, engine='cvc5/z3 QF_BVFP'))
    T.append(dict(name='serial_to_date_and_back', module=M_, func='int2date_xdate', bounds='every serial 0..2958465',
                  timeout=600, replay=rd('serial')))
    T.append(dict(name='serial_out_of_range', module=M_, func='int2date_out_of_range', bounds='serials in -10^7..10^8 outside 0..2958465',
                  timeout=300, replay=rd('serial')))
    rng = dict(mlo=-13, mhi=14, dlo=-31, dhi=62) if quick else dict(mlo=-24, mhi=36, dlo=-60, dhi=400)
    T.append(dict(name='date_normalisation', module=M_, func='date_normalisation', args=dict(rng, known_feb1900=bool(known)),
                  bounds='years 1900..9999, months %(mlo)d..%(mhi)d, days %(dlo)d..%(dhi)d' % rng + (' minus finding class feb1900' if known else ''),
                  timeout=900 if quick else 3000, replay=rd('norm')))
    for mode in (1, 2, 3, 11, 12, 13, 14, 15, 16, 17):
        T.append(dict(name='weekday_step_mode%d' % mode, module=M_, func='weekday_step', args={'mode': mode},
                      bounds='every serial 0..2958464, mode %d' % mode, timeout=300,
                      replay=(lambda cex, mode=mode: REPLAY_DATE % ('weekday', dict(cex, mode=mode)))))
    T.append(dict(name='weekday_errors', module=M_, func='weekday_errors', bounds='serials -5..2958470, modes -2..20', timeout=300,
                  replay=rd('weekday')))
    hours = sorted(set([0, 11, 23] + rnd.sample(range(24), 5))) if quick else list(range(24))
    for h in hours:
        T.append(dict(name='time_roundtrip_h%02d' % h, module=M_, func='time_roundtrip', args={'hour': h},
                      bounds='hour %d, every minute and second (3600 doubles)' % h, timeout=900, engine='symtrace z3+cvc5 QF_BVFP',
                      replay=(lambda cex, h=h: REPLAY_DATE % ('time', dict(cex, h=h)))))
    for base in (2, 8, 16):
        rb = lambda kind, base=base: (lambda cex: REPLAY_BASE % (kind, base, cex))
        T.append(dict(name='base%d_dec2x_x2dec' % base, module=M_, func='base_roundtrip', args={'base': base},
                      bounds='every integer |n| < 2^45 (domain and out-of-domain)', timeout=300, replay=rb('rt')))
        T.append(dict(name='base%d_x2dec_dec2x' % base, module=M_, func='base_roundtrip_inv', args={'base': base},
                      bounds='every 10-digit pattern', timeout=300, replay=rb('inv')))
        T.append(dict(name='base%d_places' % base, module=M_, func='base_places', args={'base': base},
                      bounds='every non-negative n in the domain, places 1..10', timeout=300, replay=rb('places')))
    run_tasks(ck, T)

    # ROMAN / ARABIC: Engine A, n is a selector (the loop repeats strings n/i times)
    src = open(os.path.join(ROOT, 'harness', 'c20_roman.py')).read()
    hs, batch = [], Batch()
    try:
        top = 447 if quick else 3999
        chunks = [(a, min(a + 63, top)) for a in range(0, top + 1, 64)]
        for lo, hi in chunks:
            s = src.replace('__LO__', str(lo)).replace('__HI__', str(hi))
            h = Harness(ck, 'c20_roman_%d_%d' % (lo, hi), s); hs.append(h)
            batch.add(h, 170 if quick else 1500, only=['roman_roundtrip_ok'],
                      bounds='n in %d..%d x forms 0..4 (boolean selectors, bounded exhaustive)' % (lo, hi))
        s = src.replace('__LO__', '0').replace('__HI__', '3999')
        h = Harness(ck, 'c20_roman_domain', s); hs.append(h)
        batch.add(h, 120, only=['roman_domain_ok'])
        bsrc = open(os.path.join(ROOT, 'harness', 'c20_base.py')).read()
        for base in (2, 8, 16):
            k = {2: 9, 8: 29, 16: 39}[base]
            offs = [0, -256, (1 << k) - 256, -(1 << k) - 256] if base != 2 else [-600, 88]
            if not quick:
                offs += [rnd.randrange(-(1 << k), (1 << k) - 512) for _ in range(12)]
            for off in offs:
                s2 = bsrc.replace('__BASE__', str(base)).replace('__OFFSET__', str(off))
                h = Harness(ck, 'c20_base%d_%s' % (base, str(off).replace('-', 'm')), s2); hs.append(h)
                batch.add(h, 170, only=['base_window_ok'],
                          bounds='real digit strings, base %d, n in %d..%d (boolean selectors, bounded exhaustive)' % (base, off, off + 511))
        tsrc = open(os.path.join(ROOT, 'harness', 'c20_text.py')).read()
        h = Harness(ck, 'c20_text', tsrc); hs.append(h)
        batch.add(h, 170, only=['text_ok'], bounds='6 base-conversion functions x 32 texts (signs, 0x / 0b / 0o prefixes, blanks, underscores, decimals, digits of other bases and scripts, 11 digits, valid boundary strings): #NUM! exactly outside the domain')
        batch.run()
    finally:
        for h in hs:
            h.cleanup()
    return ck.finish()

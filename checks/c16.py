"""C16 - writing a solution reproduces it cell for cell (tier S)."""
import os
from vlib.core import Check, ROOT
from vlib.xh import Harness, Batch


APOSTROPHE_WITNESS = '''\
import sys, warnings, logging; warnings.simplefilter('ignore'); logging.disable(logging.CRITICAL)
import formulas
from formulas.excel import BOOK
d = {"'[b.xlsx]O''N'!A1": 5, "'[b.xlsx]O''N'!A2": "='[b.xlsx]O''N'!A1*2"}
m = formulas.ExcelModel().from_dict(d).finish(complete=False)
names = m.write(solution=m.calculate())['B.XLSX'][BOOK].sheetnames
print('sheets written for the sheet O(apostrophe)N of a dictionary model:', names)
if "O'N" not in names:
    print("REPRODUCED: the sheet is written under its escaped spelling O''N"); sys.exit(1)
sys.exit(0)
'''


def run(tier, seed):
    ck = Check('C16', tier, seed, level='exploration')
    import formulas.excel as EX
    ck.encode(EX.ExcelModel.write, EX.ExcelModel.compare, EX._book2dict, EX._get_name)
    ck.assume('template, two constants, one of 8 override sets and the way of writing (fresh books, books that already hold foreign cells, to disk and read back with openpyxl) are boolean selectors; every path runs the real write() / compare() natively',
              'cells of every value kind are present: numbers, text, empty text, logicals, blanks, error values, a 2x2 array-formula range, two workbooks')
    ck.out_of_scope('workbooks loaded from files before writing', 'sheet titles that need escaping (known finding C16-apostrophe-sheet-of-dictionary-model)', 'number formats and styles')
    ck.check_known_witness('C16-apostrophe-sheet-of-dictionary-model', APOSTROPHE_WITNESS)
    quick = tier == 'quick'
    src = open(os.path.join(ROOT, 'harness', 'c16_write.py')).read()
    hs, batch = [], Batch()
    try:
        for t in range(3):
            for how in range(3):
                s = src.replace('__T__', str(t)).replace('__HOW__', str(how))
                if quick:
                    s = s.replace('pre: sel(h0, h1) < 3 and sel(h0, h1) == HOW', 'pre: sel(h0, h1) < 3 and sel(h0, h1) == HOW and sel(i0, i1, i2) in (0, 4, 6) and sel(j0, j1, j2) in (1, 5)')
                h = Harness(ck, 'c16_write_t%d_h%d' % (t, how), s); hs.append(h)
                batch.add(h, 300 if quick else 1500, only=['write_ok'], ppt=120,
                          bounds='template %d, %s constants x 8 override sets, written %s' % (
                              t, '3 x 2' if quick else '8 x 8', ['into fresh books', 'into books holding foreign cells', 'to disk, read back and compared'][how]))
        batch.run()
    finally:
        for h in hs:
            h.cleanup()
    return ck.finish()

#!/bin/sh
# ./run.sh <ID> <quick|thorough> [--replay path]
cd "$(dirname "$0")"
[ -x /verif/.venv/bin/python ] && /verif/.venv/bin/python -c "import crosshair, z3" 2>/dev/null || ./setup.sh >/dev/null || { echo "setup failed"; exit 2; }
export PYTHONPATH=${VERIF_REPO:+$VERIF_REPO:}/verif${PYTHONPATH:+:$PYTHONPATH}
export PYTHONWARNINGS=ignore
export PYTHONDONTWRITEBYTECODE=1
export VINCI1IT2000_FORMULAS_VERIF=1
exec /verif/.venv/bin/python -m vlib.runner "$@"

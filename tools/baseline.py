"""Run the repository's pinned test command (guard OFF) and compare with
/root/.vp/BASELINE.json's stable_pass list.  Exit 0 iff every stable test passes."""
import json, os, subprocess, sys, tempfile, xml.etree.ElementTree as ET
base = json.load(open('/root/.vp/BASELINE.json'))
fd, xml = tempfile.mkstemp(suffix='.xml'); os.close(fd)
env = {k: v for k, v in os.environ.items() if k != 'VINCI1IT2000_FORMULAS_VERIF'}
cmd = base['cmd'].replace('<file>', xml)
subprocess.run(cmd, shell=True, env=env, stdout=subprocess.DEVNULL, stderr=subprocess.DEVNULL)
passed = set()
for tc in ET.parse(xml).getroot().iter('testcase'):
    if not any(c.tag in ('failure', 'error', 'skipped') for c in tc):
        passed.add('%s::%s' % (tc.get('classname'), tc.get('name')))
os.remove(xml)
want = set(base['stable_pass'])
missing = sorted(want - passed)
print('stable_pass: %d, passed now: %d, missing: %d' % (len(want), len(passed & want), len(missing)))
for m in missing[:20]:
    print('  MISSING', m)
sys.exit(1 if missing else 0)

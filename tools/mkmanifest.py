"""Regenerates MANIFEST.json from the table below (python3 tools/mkmanifest.py)."""
import json
import os

ROOT = os.path.dirname(os.path.dirname(os.path.abspath(__file__)))

TB = 'z3 5.1 / cvc5 1.0.3 answers; CrossHair 0.0.110 models of int/str/bool/containers; CPython executing the real bytecode; the stubs listed in evidence.assumptions; spec/*.py reference semantics; concrete replay as last word on every alarm.'

# id -> (category, technique, level text, level note, design section)
CHECKS = {
    'C06': ('model_checking',
            'symbolic execution of the real Ranges code with CrossHair/z3 (symbolic rectangles + symbolic witness cell)',
            'Bounded symbolic checking: _intersect/_split/__add__/__and__/__or__ and both merge steps are decided for every pair (triple for the range operator) of rectangles on the full 16384x1048576 grid with a symbolic witness cell; multi-area difference, intersection, _merge and simplify on a 3x3 grid partitioned by one fixed area.',
            'Naming (format_range) stubbed; rows carried as ints; multi-area operands only on the small grid; values through formulas by selectors (12 combined reference expressions, two per formula, workbook model and formula compiled alone). ' + TB,
            'DESIGN.md §3 C06'),
}

CHECKS['C04'] = ('model_checking',
    'symbolic execution of the real naming/column-conversion code with CrossHair/z3 (symbolic columns, boundary-pool rows)',
    'Bounded symbolic checking: column letters<->numbers inverse both ways on all 16384 columns / every [A-Za-z]{1,3} spelling; fast_range2parts (v1-v4) names every rectangle with symbolic columns and boundary-pool rows exactly as the statement\'s canonical text (hence injectively), identically for A1/R1C1 numbering, letter case and the redundant A1:A1 form. By selectors through the real tokenizer: A1 range texts with both corners over 8 boundary columns x 8 boundary rows, $ markers and letter case are ONE reference token naming exactly that rectangle.',
    'Regex capture semantics assumed (captures are the substrings written); rows from a boundary pool, not symbolic; sheet ids and relative R[..]C[..] forms bounded (selectors). ' + TB,
    'DESIGN.md §3 C04')

CHECKS['C01'] = ('model_checking',
    'symbolic execution of the real parser with CrossHair/z3 over selector-chosen formula trees; z3 query over the live precedence table',
    'Bounded symbolic checking: z3 shows the live precedence/arity table orders all operator pairs as the statement does; Operator.ast pops exactly the maximal >=-rank segment for EVERY (symbolic) precedence table; the real Parser().ast is driven over all ordered operator pairs (both groupings, minimal/redundant parentheses, whitespace), operator triples in all 5 tree shapes, unary sign / percent placements, function calls with empty arguments, array literals and reference operators, and its exported text must equal the fully parenthesised rendering of the generating tree.',
    'Tree shapes, operators and spellings are selector variables (solver-driven concretisation, bounded exhaustive); regexes run concretely; depth <= 3 operators; operand values outside (C02). Known finding C01-sign-run excluded by spelling predicate. ' + TB,
    'DESIGN.md §3 C01')

CHECKS['C20'] = ('model_checking',
    'concolic symbolic execution of the real date/time/base-conversion functions on z3 proxies (LIA, QF_BV, QF_BVFP; z3 + cvc5), CrossHair for ROMAN/ARABIC',
    'Bounded symbolic checking of the real functions: every serial 0..2958465 converts to the date Excel shows and DATE returns it; DATE month/day roll-over equals Excel calendar arithmetic for bounded month/day offsets; WEEKDAY steps by one per day in all 10 modes over all serials; HOUR/MINUTE/SECOND invert TIME for every second of the checked hours (IEEE-754 doubles, bit-precise); DEC2BIN/OCT/HEX and inverses are mutually inverse on the whole domain with #NUM! outside (numbers symbolically; 32 texts with signs, prefixes, blanks, foreign digits by selectors); ROMAN/ARABIC round trip over the selector range.',
    'datetime/calendar shim (validated, injectivity proved), abstract numerals for bin/oct/hex, float->int guard < 2^62; quick tier: 8 of 24 hours, ROMAN n <= 447; cross conversions through schedula outside. Known finding C20-date-rollover-feb1900 excluded by predicate. ' + TB,
    'DESIGN.md §3 C20')

CHECKS['C18'] = ('model_checking',
    'symbolic execution of the real parser with CrossHair/z3 over selector-chosen token sequences; z3 string/regex queries over the live token patterns; concolic run of Number.compile on a symbolic literal',
    'Bounded symbolic checking: every token sequence of length <= 3 (quick) / 4 (thorough) over a 23-word vocabulary (tab, line break, a lower-case error literal included) and every single-token edit of 7 valid formulas makes the real Parser().ast return a formula or raise FormulaError - nothing else - and the statement\'s syntactic rejection classes are rejected; every string of the numeric-literal language read from the live regex is converted without exception (unbounded alphabet, length <= 12); each token pattern consumes at least one character.',
    'Token spellings are selectors (bounded exhaustive); arbitrary character strings outside; known finding C18-colon-without-first-corner excluded by predicate; numeric VALUE semantics of int()/float() trusted. ' + TB,
    'DESIGN.md §3 C18')

CHECKS['C02'] = ('model_checking',
    'concolic symbolic execution of the real operator closures on IEEE-754 double proxies (z3 QF_FP) and CrossHair/z3 for comparisons, & and the ^ dispatch',
    'Bounded symbolic checking of the real safe_eval closures taken out of OPERATORS: + - * / % unary- unary+ return exactly the statement\'s value for EVERY finite double operand (both operands symbolic, or one symbolic against each of 22 pool kinds in both positions): left-most error identical, non-numeric text #VALUE!, zero divisor #DIV/0!, non-finite #NUM!, otherwise the IEEE result; the six comparisons form one total order numbers < text < logicals for symbolic int/bool/ASCII-text operands, blanks as 0/"", errors propagate identically; & joins display forms; ^ over a 22x22 boundary pool (selectors).',
    'Kernel = the closure inside the numpy.vectorize wrapper (wrapper validated concretely on 5874 pool cases); ^ numerics only on the pool; floats not on comparison paths; text operands len <= 2 ASCII. ' + TB,
    'DESIGN.md §3 C02')

CHECKS['C10'] = ('exploration',
    'CrossHair/z3 path exploration over boolean adjacency matrices and workbook selectors; the real cycle analysis and the real ExcelModel run on each explored path against a brute-force / lazy-evaluation oracle',
    'Bounded exhaustive exploration driven by the symbolic executor: simple_cycles reports every elementary cycle exactly once on all 512 digraphs with <= 3 nodes (self-loops, all skip sets) and all 4096 loop-free digraphs on 4 nodes; the lazy-branch predicates of IF/IFS/IFERROR/IFNA for all in-cycle flag combinations (symbolic booleans); 816 workbooks (a 3-cell dependency ring, and three cells with nested IF expressions so that cycles share a cell and one formula holds two guarded back references) with plain / IF-then / IF-else / IFERROR-fallback / both-branch edges and both guard values: finish(circular=True).calculate() terminates, cells off the ring keep their values, unavoidable cycles give the circular error, rings closing only through unselected branches resolve to the lazily evaluated values, and every ordinary value reported equals the lazy value.',
    'All variables are selectors (each path = one concrete graph / workbook, run natively); graphs <= 4 nodes, rings of 3 cells, a third family with cycles through a two-cell range (known finding C10-cycles-sharing-a-range excluded by predicate); every workbook in 4 cell orders; 2 (quick) / 5 (thorough) interpreter hash seeds compared with a seed-0 child; names on the cycle outside. ' + TB,
    'DESIGN.md §3 C10')

CHECKS['C07'] = ('exploration',
    'CrossHair/z3 path exploration over boolean selectors (template, history, override set, output mask); the real ExcelModel runs on every explored path and is compared with a fresh model / with the same value stored as a constant',
    'Bounded exhaustive exploration driven by the symbolic executor: for 3 template families, every history of 2 (quick) / 3 (thorough) operations out of 14 (calculate with cell / name / range / formula overrides, outputs restriction, compile+call, to_dict, write, deepcopy) followed by each of 15 override sets (cells, defined name, column range, 2x2 block, formula cell) gives exactly the values a fresh model gives; supplied (A1, A2) values from an 8x8 pool behave as stored constants; supplying through the defined name or a multi-cell range equals supplying the cells; an overridden formula cell keeps its value; all 127 output subsets return unchanged values.',
    'Selectors only - no symbolic cell values (numpy/schedula cannot carry proxies): exploration, not proof; histories <= 3 (statement: 8); dictionary-built models of three families. ' + TB,
    'DESIGN.md §3 C07')

CHECKS['C08'] = ('exploration',
    'CrossHair/z3 path exploration over boolean selectors (template, input list, output list, formula, argument values); the real compile() and calculate() run on every explored path and are compared',
    'Bounded exhaustive exploration driven by the symbolic executor: for 3 template families x 12 input node lists (cells, defined name, formula cell, multi-cell range, 2x2 block) x 5 output lists x argument values from an 8-entry pool, ExcelModel.compile(inputs, outputs)(*vals) equals calculate(inputs=..., outputs=...) on two successive calls; 12 single formulas compiled alone take their arguments in inputs-mapping order and equal the formula with the 8^3 argument triples written in as literals.',
    'Selectors only - pool values, not every argument tuple: exploration, not proof. ' + TB,
    'DESIGN.md §3 C08')

CHECKS['C14'] = ('fault_enumeration',
    'CrossHair/z3 path exploration over the fault schedule (boolean selectors); the real from_dict / finish / calculate run on every explored schedule against a dependency oracle',
    'Exhaustive fault enumeration driven by the symbolic executor: all 10^3 x 2 schedules of {none, unknown function, _xlfn. unknown function, absent sheet, absent workbook, undefined name, #REF! literal, range on an absent sheet, unreadable workbook file, two undefined names in one formula} over three dependent formula cells: loading, completion and calculation never raise; the faulted cell is #NAME? / #REF! as the statement assigns; cells that do not depend on it keep their fault-free values; dependents carry an error that IFERROR / ISERROR intercept. The same for a workbook read from a FILE (names from its name table): 100 schedules of 10 faults incl. defined names over an undefined name and unknown functions with non-ASCII names.',
    'Dictionary-built 10-cell template and a one-sheet file-backed workbook; absent books = references to files that do not exist. Known finding C14-absent-range-overrides-known-cells printed from its witness. ' + TB,
    'DESIGN.md §3 C14')

CHECKS['C19'] = ('model_checking',
    'symbolic execution of the real MATCH / INDEX kernels with CrossHair/z3 (symbolic integer keys, lookup values, row and column numbers); selector exploration for text keys, tables and criteria',
    'Bounded symbolic checking: xmatch returns the last key <= v (ascending, equal keys allowed) / >= v (descending) / the first equal key for EVERY vector of up to 5 symbolic integer keys and every lookup value; _index returns the element at (row, column), #REF! outside and #VALUE! below zero for symbolic row / column on all shapes up to 3x3; by selectors: wildcard / case-insensitive / own-type exact MATCH on a mixed vector, VLOOKUP / HLOOKUP / LOOKUP equal INDEX of MATCH on 5 key columns x 12 keys x 4 result columns x 2 modes (and the last argument left out), COUNTIF / SUMIF / AVERAGEIF select exactly the own-type elements satisfying each of 13 criteria over all element triples of a 10-entry pool.',
    'Integer keys only (no floats) in the symbolic part; text / criteria / tables from pools (bounded exhaustive); INDEX row/column 0 outside. ' + TB,
    'DESIGN.md §3 C19')

CHECKS['C12'] = ('model_checking',
    'concolic symbolic execution of the real rounding code on exact-decimal proxies (z3 LIA) and of the integer-valued kernels on IEEE doubles (z3+cvc5 QF_FP/BVFP); CrossHair/z3 for text slicing on symbolic strings; selector exploration for search/substitute, logic, information and aggregation functions',
    'Bounded symbolic checking: ROUND / ROUNDUP / ROUNDDOWN / TRUNC of k/10^e at d digits equal the decimal-arithmetic answer for EVERY integer |k| < 10^15 (e, d from the tier grid); EVEN / ODD / INT / SIGN / ABS for every normal double below 2^50; CEILING / FLOOR sign cases for every 20-bit integer against fixed significances; LEFT / RIGHT / MID / REPLACE against slicing specs on symbolic strings and positions; FIND / SEARCH / SUBSTITUTE / LEN / UPPER / LOWER / TRIM, display-form coercion, IF / NOT / IFERROR / IFNA, the IS family, and 12 aggregations (referenced vs typed arguments, blanks, order invariance) by exhaustive selector pools.',
    'Decimal proxies rest on the contract that the shortest repr of the double nearest to a <=15-digit decimal is that decimal; libm functions, STDEV/VAR, SUMPRODUCT, IFS/SWITCH, TEXTJOIN, VALUE outside; aggregations and search functions on pools, not symbolic values. ' + TB,
    'DESIGN.md §3 C12')

CHECKS['C03'] = ('model_checking',
    'symbolic execution of the real range/cell marshalling kernels with CrossHair/z3 (symbolic rectangles + witness cell); selector exploration of whole workbooks',
    'Bounded symbolic checking of the index arithmetic that wires cells to ranges: _get_indices_intersection and _assemble_values copy each cell of every rectangle pair on the full grid from its own offset to its own offset (symbolic witness cell, whole-column bases included). Workbook level by selectors: 1152 dictionary-built workbooks (3 template families x 8x8 constants x 6 insertion orders) calculate to the same values whatever the insertion order, every formula cell equals its own formula applied to the solved values of the cells it refers to (single cells, ranges with blanks, cross-sheet, cross-book, defined name, array formula), constants keep their values.',
    'Whole-model claims are selector exploration (numpy/schedula cannot carry symbolic values); the file loading path = two harness workbooks loaded in 4 ways against the dictionary path; 2 (quick) / 5 (thorough) interpreter hash seeds. ' + TB,
    'DESIGN.md §3 C03')

CHECKS['C05'] = ('exploration',
    'CrossHair/z3 path exploration over shape / pool / operator / argument-count selectors; the real fitting and vectorised evaluation run on each path against a position-by-position oracle built from the same functions on scalars',
    'Bounded exhaustive exploration driven by the symbolic executor: all 256 source x destination shape pairs up to 4x4 are fitted as the statement says (scalar fills, single row / column repeats, surplus dropped, #N/A elsewhere) through Ranges.push and through a Cell result; 10 operators / functions on all broadcastable pairs of 8 operand shapes give, position by position, the scalar result (errors, text, logicals, blanks in the element pool); CONCATENATE gives the same element-wise answer for 9..64 arguments across numpy\'s 32-argument limit; 12 one-argument functions give the scalar result position by position in 4 memory layouts (C, Fortran, transposed view, strided slice).',
    'Selectors only (numpy does the broadcasting): exploration. Known finding C05-vector-transposed excluded by predicate. ' + TB,
    'DESIGN.md §3 C05')

CHECKS['C13'] = ('model_checking',
    'concolic symbolic execution of RANDBETWEEN\'s kernel with the random source as a symbolic double (z3+cvc5 QF_BVFP); CrossHair/z3 on the impure wrapper; selector exploration of workbooks under a harness clock',
    'Bounded symbolic checking: for every pair of integer bounds below 2^20 (quick) / 2^30 and EVERY double u in [0,1) returned by the random source, RANDBETWEEN returns an integer within its bounds (#NUM! when top < bottom); the impure wrapper yields no value while compiling and otherwise calls through (symbolic flag and arguments). By selectors: 16 formulas with NOW / TODAY / RAND / RANDBETWEEN nested at several depths x 7 ways of obtaining the executable model (loaded, compiled to a function, deep-copied, re-imported from JSON, single compiled formula, overridden volatile cell, recalculation with an unrelated override): every call evaluates afresh under an advancing harness clock and all cells referring to the volatile cell see one value.',
    'Clock and random source are harness stubs with their documented contracts; workbook level is selector exploration. ' + TB,
    'DESIGN.md §3 C13')

CHECKS['C09'] = ('exploration',
    'CrossHair/z3 path exploration over constant / sheet-name / model / formula-tree selectors; every explored path runs the real to_dict -> JSON text -> from_dict -> to_dict chain',
    'Bounded exhaustive exploration driven by the symbolic executor: all 259 text cells of length <= 3 over {= \" a 1 blank #} and 84 texts starting with an error literal / reference / logical, 16 typed constants, three model families x 8x8 constants x 8 sheet names that need quoting (hyphen, blank, apostrophe, leading digit, !, second workbook), and five formula shapes x all 1728 operator triples: the re-imported model computes identical values for every node, the second and third exports equal the first, and a formula\'s exported text parses back to itself.',
    'Selectors only; dictionary-built models (text cells created as the reader creates them). ' + TB,
    'DESIGN.md §3 C09')

CHECKS['C11'] = ('exploration',
    'CrossHair/z3 path exploration over (function, argument count, argument values) selectors covering the whole function table; every explored path calls the public registered function',
    'Bounded exhaustive exploration driven by the symbolic executor over all ~247 names of the function table: with the required number of arguments (and one / two more for variadic functions) drawn from pools of numbers, logicals, text, numeric text, blank, error values and 1x2 / 2x1 arrays, no call raises and every result consists of Excel values only (finite numbers, text, logicals, errors, blanks, arrays of these); for every function outside the documented error-handling / inspection / selection list an error value in any argument position yields an error in every element of the result. The same for 31-40 arguments of variadic functions (both sides of numpy\'s 32-operand limit). Known finding C11-overflow-to-infinity (non-finite results) excluded by predicate.',
    'Pools, not all argument tuples; optional arguments not exercised; quick tier runs the 3-argument pool on a seeded quarter of the table. ' + TB,
    'DESIGN.md §3 C11')

CHECKS['C15'] = ('exploration',
    'CrossHair/z3 path exploration over (constants, requested outputs) selectors; every explored path loads real .xlsx files fully and from the chosen outputs and compares the calculated values',
    'Bounded exhaustive exploration driven by the symbolic executor: for two real workbooks (sheets referring to each other, whole-row and - on a few paths - whole-column references, a defined name, an array formula, readers of its spilled cell alone and inside larger rectangles, two sheets with one title, cross-workbook references both ways), ExcelModel().from_ranges(*outputs).finish().calculate() gives on every requested output exactly the value of the fully loaded workbooks, for the explored constants and the listed output sets (18 single outputs, 13 combinations, either request order; a seeded sample up to 64 sets in the thorough tier); completing / finishing the partial model - and a deep copy of it - again changes neither its nodes nor its results.',
    'Selectors only, one workbook family written by the harness (harness/books.py), output sets from a list, whole-column references on 2-16 paths only (1048576 cells assembled per model): exploration of a file-backed scenario, nothing about arbitrary workbooks. ' + TB,
    'DESIGN.md §7.6')
CHECKS['C16'] = ('exploration',
    'CrossHair/z3 path exploration over (template, constants, override set, way of writing) selectors; every explored path runs the real write() / compare() and reads the books back',
    'Bounded exhaustive exploration driven by the symbolic executor: every solved cell - each cell of multi-cell ranges included - is found in the written books at its own sheet and coordinates with the solved value (errors as text, blanks and empty text as empty cells), nothing else is written, foreign cells of pre-existing books are untouched, and compare() of the model with its own files written to disk reports no difference; 3 template families, value kinds of every type, 8 override sets, 3 ways of writing.',
    'Selectors only; dictionary-built models; formats / styles outside. ' + TB,
    'DESIGN.md §7.6')
CHECKS['C17'] = ('exploration',
    'CrossHair/z3 path exploration over (template, kind of copy, interleaved operations, override set) selectors; every explored path runs deepcopy / dill and the real models',
    'Bounded exhaustive exploration driven by the symbolic executor: a deep copy, a dill round trip and a copy of a dill copy of a model (with or without a history) and of compiled functions compute exactly what a fresh model computes for the explored override sets / arguments, and an operation on one (16 kinds: calculations with overrides, compile + call, to_dict, write, re-finishing ...) never changes the results of the other; circular models included.',
    'Selectors only; one operation on each side of the interleaving. ' + TB,
    'DESIGN.md §7.6')

NA = {
    'C15': 'the dependency closure is computed over openpyxl worksheets read from .xlsx files while mutating the schedula dispatcher; neither can be given a symbolic state (DESIGN §4)',
    'C16': 'placement is done by openpyxl range iteration zipped with np.ravel and compared by re-reading files: I/O and third-party C code, no encodable kernel (DESIGN §4)',
    'C17': 'copy.deepcopy / dill walk an object graph of schedula, numpy and closure objects; independence of two such graphs is not a solver-expressible post-condition of any function in the repository (DESIGN §4)',
}
PENDING = 'check not built yet in this round (planned: see DESIGN.md §3)'

ALL = ['C%02d' % i for i in range(1, 21)]


def main():
    checks = []
    for pid in ALL:
        if pid not in CHECKS:
            continue
        cat, tech, text, note, ref = CHECKS[pid]
        checks.append({
            'property_id': pid,
            'quick_cmd': './run.sh %s quick' % pid,
            'thorough_cmd': './run.sh %s thorough' % pid,
            'evidence_file': '/verif/evidence/%s.json' % pid,
            'replay_cmd_template': './run.sh --replay {path}',
            'engine': 'solver',
            'level_claimed': {'category': cat, 'text': text, 'design_ref': ref},
            'level_note': note,
            'technique': tech,
        })
    na = [{'property_id': p, 'reason': NA.get(p, PENDING)} for p in ALL if p not in CHECKS]
    man = {
        'version': 1,
        'setup_cmd': './setup.sh',
        'hooks': {
            'guard': 'VINCI1IT2000_FORMULAS_VERIF',
            'enable': 'no source hooks are needed: all stubs are applied inside the harness processes; run.sh exports VINCI1IT2000_FORMULAS_VERIF=1 for uniformity',
            'baseline_off_cmd': '/venv/bin/python /verif/tools/baseline.py',
            'source_commits': [],
            'add_only': True,
        },
        'engines': [
            {'name': 'crosshair', 'path': 'vlib/xh.py', 'kind_free_text': 'Engine A: CrossHair symbolic execution (z3) of harness conditions over the live code, one process per condition, reachability twins, concrete replay'},
            {'name': 'symtrace', 'path': 'vlib/symtrace.py', 'kind_free_text': 'Engine B: concolic DFS of the real bytecode on z3 proxies (FP64 / BV64 / Int), per-path SMT queries, z3 + cvc5'},
            {'name': 'rx2smt', 'path': 'vlib/rx2smt.py', 'kind_free_text': 'Engine C: the live token regular expressions translated to z3 regexes; language inclusion queries'},
        ],
        'checks': checks,
        'not_applicable': na,
        'notes': 'All checks: ./run.sh <ID> <quick|thorough>; exit 0 ok, 1 VIOLATION, 2 harness error. Genuine defects: known_findings.json.',
    }
    for e in man['engines']:
        e['serves_properties'] = []
    with open(os.path.join(ROOT, 'MANIFEST.json'), 'w') as f:
        json.dump(man, f, indent=1)
    print('MANIFEST.json: %d checks, %d not applicable' % (len(checks), len(na)))


if __name__ == '__main__':
    main()

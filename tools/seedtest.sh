#!/bin/sh
# tools/seedtest.sh <patch.diff> <ID> [tier]
# Development tool: applies a seeded change to a scratch worktree of /repo's HEAD
# (never to /repo), runs the check against it (VERIF_REPO / VERIF_OUT overrides),
# removes the worktree.  Registered checks always run against /repo itself.
P=$(realpath "$1"); ID=$2; TIER=${3:-quick}
W=$(mktemp -d /tmp/seedwt.XXXXXX); rmdir "$W"
git -C /repo worktree add -q --detach "$W" HEAD || exit 9
cd "$W" && { git apply "$P" 2>/dev/null || git apply --3way "$P" 2>/dev/null; } || { echo "patch does not apply"; git -C /repo worktree remove --force "$W"; exit 8; }
O=$(mktemp -d /tmp/seedout.XXXXXX)
cd /verif && VERIF_REPO="$W" VERIF_OUT="$O" ./run.sh "$ID" "$TIER" > "$O/log" 2>&1
rc=$?
grep -E "VIOLATION|harness error| HERR |^\[$ID\] (quick|thorough)" "$O/log" | head -${SEEDTEST_LINES:-6}
echo "exit=$rc log=$O/log"
git -C /repo worktree remove --force "$W"

#!/bin/sh
# tools/seedtest.sh <patch.diff> <ID> [tier]  - apply a seeded change to /repo, run the check, undo.
P=$1; ID=$2; TIER=${3:-quick}
cd /repo || exit 9
git diff --quiet || { echo "/repo not clean"; exit 9; }
git apply "$P" 2>/dev/null || git apply --3way "$P" || { echo "patch does not apply"; exit 8; }
cd /verif && ./run.sh "$ID" "$TIER" > /tmp/seedtest_$ID.log 2>&1
rc=$?
git -C /repo checkout -- . ; git -C /repo reset -q
grep -E "VIOLATION|harness error|^\[$ID\] (quick|thorough)" /tmp/seedtest_$ID.log | head -8
echo "exit=$rc"

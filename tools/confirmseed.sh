#!/bin/sh
# tools/confirmseed.sh <seeded/ID dir>: re-confirm a seeded change in a fresh scratch worktree of /repo HEAD:
# demo passes clean, fails patched; pinned test-suite (stable_pass of BASELINE.json) still passes patched.
D=$(realpath "$1")
W=$(mktemp -d /tmp/confwt.XXXXXX); rmdir "$W"
git -C /repo worktree add -q --detach "$W" HEAD || exit 9
cd "$W"
PYTHONPATH="$W" /venv/bin/python -W ignore "$D/demo.py" > /dev/null 2>&1; c=$?
{ git apply "$D/patch.diff" 2>/dev/null || git apply --3way "$D/patch.diff" 2>/dev/null; } || { echo "patch does not apply on HEAD"; git -C /repo worktree remove --force "$W"; exit 8; }
PYTHONPATH="$W" /venv/bin/python -W ignore "$D/demo.py" > /dev/null 2>&1; p=$?
X=$(mktemp /tmp/conf.XXXXXX.xml)
PYTHONPATH="$W" /venv/bin/python -m pytest -ra -q -p no:cacheprovider --timeout=900 --continue-on-collection-errors --junitxml="$X" > /dev/null 2>&1
/venv/bin/python - "$X" <<'PY'
import json, sys, xml.etree.ElementTree as ET
base = json.load(open('/root/.vp/BASELINE.json'))
passed = set()
for tc in ET.parse(sys.argv[1]).getroot().iter('testcase'):
    if not any(c.tag in ('failure', 'error', 'skipped') for c in tc):
        passed.add('%s::%s' % (tc.get('classname'), tc.get('name')))
missing = sorted(set(base['stable_pass']) - passed)
print('tests: stable_pass missing with patch: %d %s' % (len(missing), missing[:5]))
PY
echo "demo clean exit=$c patched exit=$p"
rm -f "$X"; git -C /repo worktree remove --force "$W"

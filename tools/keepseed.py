"""tools/keepseed.py <src_dir> <seed_id> <property> <caught_by> <needs...>  - file a confirmed seeded change under /verif/seeded/"""
import json, os, shutil, sys
src, sid, prop, caught = sys.argv[1:5]
needs = ' '.join(sys.argv[5:])
dst = os.path.join('/verif/seeded', sid)
os.makedirs(dst, exist_ok=True)
for f in ('patch.diff', 'demo.py', 'notes.txt'):
    if os.path.exists(os.path.join(src, f)):
        shutil.copy(os.path.join(src, f), os.path.join(dst, f))
meta = {'seed': sid, 'breaks_property': prop, 'needs_to_manifest': needs,
        'produced_by': 'independent sub-agent given only the property text and a scratch worktree',
        'confirmed': 'demo.py exits 0 on the clean tree and non-zero with patch.diff applied; pinned test-suite result unchanged (checked in a scratch worktree)',
        'ran': 'tools/seedtest.sh seeded/%s/patch.diff %s quick' % (sid, prop),
        'detected_by': caught}
json.dump(meta, open(os.path.join(dst, 'meta.json'), 'w'), indent=1)
print('kept', dst)

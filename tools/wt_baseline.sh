#!/bin/sh
# tools/wt_baseline.sh <worktree>: run the pinned test command inside a scratch worktree and compare with stable_pass
W=$(realpath "$1"); X=$(mktemp /tmp/wtb.XXXXXX.xml)
cd "$W" && PYTHONPATH="$W" /venv/bin/python -m pytest -ra -q -p no:cacheprovider --timeout=900 --continue-on-collection-errors --junitxml="$X" > /dev/null 2>&1
/venv/bin/python - "$X" <<'PY'
import json, sys, xml.etree.ElementTree as ET
base = json.load(open('/root/.vp/BASELINE.json'))
passed = set()
for tc in ET.parse(sys.argv[1]).getroot().iter('testcase'):
    if not any(c.tag in ('failure', 'error', 'skipped') for c in tc):
        passed.add('%s::%s' % (tc.get('classname'), tc.get('name')))
missing = sorted(set(base['stable_pass']) - passed)
print('stable_pass missing: %d %s' % (len(missing), missing[:5]))
PY
rm -f "$X"; rm -rf "$W/test/test_files/tmp"

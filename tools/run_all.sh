#!/bin/sh
# tools/run_all.sh <tier> [ids...]  - run checks sequentially, one summary line each
TIER=${1:-quick}; shift
IDS=${*:-C01 C02 C03 C04 C05 C06 C07 C08 C09 C10 C11 C12 C13 C14 C18 C19 C20}
cd /verif
for id in $IDS; do
  s=$(date +%s)
  timeout ${RUN_ALL_TIMEOUT:-5400} ./run.sh $id $TIER > /tmp/runall_${TIER}_$id.log 2>&1
  rc=$?
  echo "$id rc=$rc $(( $(date +%s) - s ))s $(grep -E "^\[$id\] (quick|thorough):" /tmp/runall_${TIER}_$id.log | tail -1)"
done
